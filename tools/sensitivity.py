#!/venv/bin/python
"""Sensitivity aid (documented command, not a MANIFEST check): apply every patch of /verif/mutants and
/verif/seeded to a scratch copy of /repo's dimarray package (under /var/tmp, removed afterwards), run the
quick check(s) of the property it breaks with VERIF_REPO pointing at the copy, and write SENSITIVITY.md.

usage: tools/sensitivity.py [--all-props] [--runs N] [name-filter ...]
"""
import glob
import json
import os
import re
import shutil
import subprocess
import sys
import tempfile
import time

VERIF = os.path.dirname(os.path.dirname(os.path.abspath(__file__)))
PROPS = ["C05", "C13", "C14", "C15", "C16", "C19", "C20"]
REVERT_PROPS = {"84b9596": ["C05", "C19"], "64f96b1": ["C13"], "bea0f36": ["C15"], "3a70d12": ["C15"], "c3dc014": ["C05"],
                "1b9a4f9": ["C05"], "435e2c8": ["C16"], "ccbf9bd": ["C13"], "5f9b297": ["C13"], "f0f9f96": ["C13"],
                "9865bf0": ["C14", "C15"], "ed38495": ["C14"], "6d15e8a": ["C14"], "1a4f1bf": ["C14"], "b6a2c38": ["C20"],
                "ba53086": ["C20"], "f310b76": ["C05"], "6c7e59e": ["C13"], "3cd3d06": ["C20"]}


def patches():
    out = []
    for p in sorted(glob.glob(os.path.join(VERIF, "mutants", "*.patch"))):
        name = os.path.basename(p)[:-6]
        sha = name.replace("revert_", "")
        out.append((name, p, REVERT_PROPS.get(sha, PROPS), "reverse of fix %s" % sha))
    for d in sorted(glob.glob(os.path.join(VERIF, "seeded", "*"))):
        meta = os.path.join(d, "meta.json")
        if os.path.exists(meta):
            m = json.load(open(meta))
            needs = m.get("needs", "")
            if m.get("detected") is False:
                needs = "BY-DESIGN " + needs
            out.append(("seeded/" + os.path.basename(d), os.path.join(d, "patch.diff"), m.get("properties", [m.get("property")]), needs))
    return out


def run_one(patch, prop, runs):
    scratch = tempfile.mkdtemp(prefix="dsim_sens.", dir="/var/tmp")
    try:
        shutil.copytree("/repo/dimarray", os.path.join(scratch, "dimarray"))
        r = subprocess.run(["patch", "-p1", "-s", "-d", scratch, "-i", patch], capture_output=True, text=True)
        if r.returncode != 0:
            return "PATCH-FAILED", 0.0, r.stdout[-200:]
        env = dict(os.environ, VERIF_REPO=scratch)
        cmd = ["/venv/bin/python", os.path.join(VERIF, "check.py"), prop, "--no-evidence"]
        if runs:
            cmd += ["--runs", str(runs)]
        t0 = time.time()
        r = subprocess.run(cmd, capture_output=True, text=True, env=env, timeout=900)
        dt = time.time() - t0
        first = ""
        for line in r.stdout.splitlines():
            if line.strip().startswith("violation "):
                first = line.strip()[:200]
                break
        if r.returncode == 1:
            return "caught", dt, first
        if r.returncode == 0:
            return "missed", dt, ""
        return "harness-error(%d)" % r.returncode, dt, r.stdout[-300:]
    finally:
        shutil.rmtree(scratch, ignore_errors=True)


def main():
    args = [a for a in sys.argv[1:] if not a.startswith("--")]
    allp = "--all-props" in sys.argv
    runs = None
    if "--runs" in sys.argv:
        runs = int(sys.argv[sys.argv.index("--runs") + 1])
        args = [a for a in args if a != str(runs)]
    rows = []
    # rows are appended to a journal as they are produced, so that an interrupted run can be resumed
    journal = "/var/tmp/sensitivity_rows.jsonl"
    done = {}
    if os.path.exists(journal) and "--fresh" not in sys.argv:
        for line in open(journal):
            r = json.loads(line)
            done[(r[0], r[1])] = r
    for name, patch, props, needs in patches():
        if args and not any(a in name for a in args):
            continue
        for prop in (PROPS if allp else props):
            if (name, prop) in done:
                rows.append(tuple(done[(name, prop)]))
                continue
            res, dt, first = run_one(patch, prop, runs)
            if res == "missed" and needs.startswith("BY-DESIGN"):
                res = "not detected (by design, see meta.json)"
            print("%-28s %-4s %-8s %5.1fs %s" % (name, prop, res, dt, first[:140]), flush=True)
            rows.append((name, prop, res, dt, first, needs))
            with open(journal, "a") as jf:
                jf.write(json.dumps([name, prop, res, dt, first, needs]) + "\n")
    if not args:
        with open(os.path.join(VERIF, "SENSITIVITY.md"), "w") as f:
            f.write("# Sensitivity: which check reports which deliberately broken variant\n\n")
            f.write("Produced by `tools/sensitivity.py` (quick tier%s) on a scratch copy of /repo's `dimarray/` with the patch applied.\n\n" % (", --runs %d" % runs if runs else ""))
            f.write("| variant | check | result | wall | first violation reported |\n|---|---|---|---|---|\n")
            for name, prop, res, dt, first, needs in rows:
                f.write("| %s | %s | %s | %.0fs | %s |\n" % (name, prop, res, dt, first.replace("|", "\\|")))
    bad = [r for r in rows if r[2] != "caught" and r[1] in dict((n, p) for n, _, p, _ in [(x[0], None, x[2], None) for x in patches()]).get(r[0], [r[1]])]
    return 0


if __name__ == "__main__":
    sys.exit(main())
