#!/venv/bin/python
"""Mutation analysis aid (documented command, not a MANIFEST check).

Generates simple source mutants of the files the claimed properties are anchored in, keeps those the pinned
test-suite does not notice (all 180 stable baseline tests still pass), and runs the quick checks of the properties
anchored in the mutated file on each of them (scratch copies under /var/tmp, removed afterwards).

usage: tools/mutate.py [--n 300] [--seed 1] [--runs 8000] [--jobs 12] [--out /var/tmp/mutation.jsonl]
       tools/mutate.py --recheck /var/tmp/mutation.jsonl --out /var/tmp/mutation2.jsonl [--runs 6000]   (second pass, all seven checks)
"""
import ast
import json
import os
import random
import re
import shutil
import subprocess
import sys
import tempfile
import time
import xml.etree.ElementTree as ET
from concurrent.futures import ThreadPoolExecutor

VERIF = os.path.dirname(os.path.dirname(os.path.abspath(__file__)))
REPO = "/repo"

FILES = {
    "dimarray/core/axes.py": (["C05", "C15", "C16"], None),
    "dimarray/core/bases.py": (["C16", "C05", "C20"], ["GetSetDelAttrMixin", "AbstractHasMetadata", "AbstractAxis", "AbstractHasAxes", "AbstractDimArray"]),
    "dimarray/dataset.py": (["C13", "C14", "C15", "C19"], None),
    "dimarray/io/nc.py": (["C19", "C20"], None),
    "dimarray/core/operation.py": (["C15", "C16"], None),
    "dimarray/core/reshape.py": (["C15", "C05", "C16"], ["broadcast", "transpose", "swapaxes", "repeat", "newaxis", "squeeze", "reshape", "flatten", "unflatten"]),
    "dimarray/core/align.py": (["C15", "C13", "C16"], ["_common_axis", "_get_aligned_axes", "align", "stack", "concatenate", "reindex_axis", "reindex_like", "sort_axis", "_get_axes", "align_dims"]),
    "dimarray/core/dimarraycls.py": (["C05", "C15", "C16", "C19"], ["__init__", "values", "axes", "_constructor", "copy", "compress", "compress_axis", "take_axis", "to_jsondict", "from_jsondict", "write_nc", "set_axis", "_unary_op", "__eq__", "_cmp", "__array_wrap__", "to_dataset"]),
    "dimarray/core/transform.py": (["C16", "C15"], ["apply_along_axis", "argmin", "argmax", "diff", "interp_axis", "interp_like", "_deal_with_axis"]),
}

SWAPS = [(" == ", " != "), (" != ", " == "), (" is not ", " is "), (" <= ", " < "), (" >= ", " > "), (" and ", " or "), (" or ", " and "),
         ("True", "False"), ("False", "True"), ("copy.deepcopy(", "("), (".copy()", ""), ("copy.copy(", "("), (" not in ", " in "), (" in ", " not in "),
         ("inplace=True", "inplace=False"), ("+= ", "-= "), ("[1:]", "[:]"), ("[:-1]", "[:]"), (" + 1", ""), (" - 1", "")]


def spans(path, names):
    src = open(os.path.join(REPO, path)).read()
    tree = ast.parse(src)
    out = []
    for node in ast.walk(tree):
        if isinstance(node, (ast.FunctionDef, ast.ClassDef)):
            if names is None or node.name in names:
                doc = ast.get_docstring(node, clean=False)
                start = node.lineno
                out.append((node.lineno, node.end_lineno))
    return out, src


def in_docstring_lines(src):
    tree = ast.parse(src)
    bad = set()
    for node in ast.walk(tree):
        if isinstance(node, (ast.FunctionDef, ast.ClassDef, ast.Module)):
            body = getattr(node, "body", [])
            if body and isinstance(body[0], ast.Expr) and isinstance(getattr(body[0], "value", None), ast.Constant) and isinstance(body[0].value.value, str):
                for ln in range(body[0].lineno, body[0].end_lineno + 1):
                    bad.add(ln)
    return bad


def candidates():
    out = []
    for path, (props, names) in FILES.items():
        sp, src = spans(path, names)
        lines = src.split("\n")
        doc = in_docstring_lines(src)
        seen = set()
        for a, b in sp:
            for ln in range(a, b + 1):
                if ln in seen or ln in doc:
                    continue
                seen.add(ln)
                text = lines[ln - 1]
                stripped = text.strip()
                if not stripped or stripped.startswith("#") or stripped.startswith(("def ", "class ", "@", "import ", "from ", '"""', "'''")):
                    continue
                code = text.split("#")[0]
                indent = text[:len(text) - len(text.lstrip())]
                if stripped.startswith("if ") and stripped.rstrip().endswith(":") and " else " not in stripped:
                    cond = stripped[3:].rstrip()[:-1]
                    out.append((path, ln, "negate-if", indent + "if not (" + cond + "):"))
                if re.match(r"^[\w\.\[\]\'\", ]+ = .+|^[\w\.]+\(.*\)$|^[\w\.\[\]\'\"]+ [-+*]= .+", stripped) and not stripped.endswith((",", "(", "[", "{", "\\")):
                    out.append((path, ln, "delete-stmt", indent + "pass"))
                for old, new in SWAPS:
                    if old in code:
                        out.append((path, ln, "swap %r->%r" % (old.strip(), new.strip()), text.replace(old, new, 1)))
    return out


def make_tree(path, ln, newline):
    scratch = tempfile.mkdtemp(prefix="dsim_mut.", dir="/var/tmp")
    for name in ("dimarray", "tests", "conftest.py", "pyproject.toml", "setup.py"):
        src = os.path.join(REPO, name)
        if os.path.isdir(src):
            shutil.copytree(src, os.path.join(scratch, name), ignore=shutil.ignore_patterns("__pycache__"))
        elif os.path.exists(src):
            shutil.copy(src, scratch)
    f = os.path.join(scratch, path)
    lines = open(f).read().split("\n")
    lines[ln - 1] = newline
    text = "\n".join(lines)
    try:
        compile(text, f, "exec")
    except SyntaxError:
        shutil.rmtree(scratch)
        return None
    open(f, "w").write(text)
    return scratch


BASE = set(json.load(open("/root/.vp/BASELINE.json"))["stable_pass"])


def tests_pass(scratch):
    out = os.path.join(scratch, "junit.xml")
    try:
        subprocess.run(["/venv/bin/python", "-m", "pytest", "-q", "-x", "-p", "no:cacheprovider", "--timeout=120", "--continue-on-collection-errors",
                        "--junitxml=" + out], cwd=scratch, capture_output=True, text=True, timeout=400)
    except subprocess.TimeoutExpired:
        return False
    if not os.path.exists(out):
        return False
    ok = set()
    for tc in ET.parse(out).getroot().iter("testcase"):
        if not any(c.tag in ("failure", "error", "skipped") for c in tc):
            ok.add(tc.get("classname") + "::" + tc.get("name"))
    return BASE <= ok


def stage1(c):
    path, ln, kind, newline = c
    scratch = make_tree(path, ln, newline)
    if scratch is None:
        return c, None, "syntax"
    # -x stops at the first failure: the pre-existing failures come first, so run without -x but cheaply
    out = os.path.join(scratch, "junit.xml")
    try:
        subprocess.run(["/venv/bin/python", "-m", "pytest", "-q", "-p", "no:cacheprovider", "--timeout=120", "--continue-on-collection-errors",
                        "--junitxml=" + out], cwd=scratch, capture_output=True, text=True, timeout=600)
    except subprocess.TimeoutExpired:
        shutil.rmtree(scratch, ignore_errors=True)
        return c, None, "timeout"
    ok = set()
    if os.path.exists(out):
        for tc in ET.parse(out).getroot().iter("testcase"):
            if not any(x.tag in ("failure", "error", "skipped") for x in tc):
                ok.add(tc.get("classname") + "::" + tc.get("name"))
    if not BASE <= ok:
        shutil.rmtree(scratch, ignore_errors=True)
        return c, None, "killed-by-tests"
    return c, scratch, "survives-tests"


def stage2(scratch, props, runs):
    res = {}
    for prop in props:
        env = dict(os.environ, VERIF_REPO=scratch)
        t0 = time.time()
        try:
            r = subprocess.run(["/venv/bin/python", os.path.join(VERIF, "check.py"), prop, "--no-evidence", "--runs", str(runs)],
                               capture_output=True, text=True, env=env, timeout=900)
            first = ""
            for line in r.stdout.splitlines():
                if line.strip().startswith("violation ") or "HARNESS" in line:
                    first = line.strip()[:220]
                    break
            res[prop] = {"rc": r.returncode, "first": first, "s": round(time.time() - t0, 1)}
        except subprocess.TimeoutExpired:
            res[prop] = {"rc": -1, "first": "timeout", "s": 900}
        if res[prop]["rc"] == 1:
            break       # caught: no need to run the other checks
    return res


ALL = ["C05", "C13", "C14", "C15", "C16", "C19", "C20"]


def recheck(inp, outp, runs):
    """Second pass: every mutant no check reported in the first pass is run against all seven checks (the first pass only runs
    the checks of the properties anchored in the mutated file); records are rewritten to `outp`."""
    done = set()
    if os.path.exists(outp):
        done = {(r["file"], r["line"], r["kind"]) for r in map(json.loads, open(outp))}
    for rec in map(json.loads, open(inp)):
        key = (rec["file"], rec["line"], rec["kind"])
        if key in done:
            continue
        if rec["stage1"] == "survives-tests" and not rec.get("caught"):
            cur = open(os.path.join(REPO, rec["file"])).read().split("\n")
            line = rec["line"]
            if rec.get("orig") is not None and (line > len(cur) or cur[line - 1] != rec["orig"]):
                # the file changed since the first pass (a fix: commit moved the line): find the line by its text
                cands = [j + 1 for j, l in enumerate(cur) if l == rec["orig"]]
                if not cands:
                    continue
                line = min(cands, key=lambda j: abs(j - rec["line"]))
            orig = cur[line - 1]
            indent = orig[:len(orig) - len(orig.lstrip())]
            scratch = make_tree(rec["file"], line, indent + rec["new"])
            if scratch is not None:
                try:
                    first = FILES[rec["file"]][0]
                    rec["checks"] = stage2(scratch, first + [p for p in ALL if p not in first], runs)
                    rec["caught"] = any(v["rc"] == 1 for v in rec["checks"].values())
                    rec["pass"] = 2
                finally:
                    shutil.rmtree(scratch, ignore_errors=True)
            print(("CAUGHT  " if rec["caught"] else "SURVIVES"), rec["file"], rec["line"], rec["kind"], "|", rec["new"][:70], flush=True)
        with open(outp, "a") as f:
            f.write(json.dumps(rec) + "\n")
    return 0


def main():
    arg = lambda k, d: type(d)(sys.argv[sys.argv.index(k) + 1]) if k in sys.argv else d
    n, seed, runs, jobs = arg("--n", 300), arg("--seed", 1), arg("--runs", 8000), arg("--jobs", 12)
    outp = arg("--out", "/var/tmp/mutation.jsonl")
    if "--recheck" in sys.argv:
        return recheck(arg("--recheck", ""), outp, runs)
    cands = candidates()
    rng = random.Random(seed)
    rng.shuffle(cands)
    cands = cands[:n]
    print("candidates sampled:", len(cands), flush=True)
    survivors = []
    with ThreadPoolExecutor(max_workers=jobs) as ex:
        for c, scratch, status in ex.map(stage1, cands):
            rec = {"file": c[0], "line": c[1], "kind": c[2], "new": c[3].strip(), "stage1": status,
                   "orig": open(os.path.join(REPO, c[0])).read().split("\n")[c[1] - 1]}
            if scratch:
                survivors.append((rec, scratch))
            else:
                with open(outp, "a") as f:
                    f.write(json.dumps(rec) + "\n")
    print("survive the test-suite:", len(survivors), flush=True)
    for rec, scratch in survivors:
        try:
            rec["checks"] = stage2(scratch, FILES[rec["file"]][0], runs)
            rec["caught"] = any(v["rc"] == 1 for v in rec["checks"].values())
        finally:
            shutil.rmtree(scratch, ignore_errors=True)
        with open(outp, "a") as f:
            f.write(json.dumps(rec) + "\n")
        print(("CAUGHT  " if rec["caught"] else "SURVIVES"), rec["file"], rec["line"], rec["kind"], "|", rec["new"][:70], flush=True)
    return 0


if __name__ == "__main__":
    sys.exit(main())
