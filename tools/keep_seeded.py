#!/venv/bin/python
"""Verify a sub-agent's breaking change in a fresh scratch worktree and, if everything holds, keep it under /verif/seeded/<id>/.

usage: keep_seeded.py <out_dir> <k> <id> <PROP[,PROP]> "<what it needs to manifest>"

Confirms: the patch applies to /repo's HEAD; the 180 stable baseline tests still pass with it; the demonstration
exits 0 without the patch and non-zero with it.  Nothing is ever applied to /repo itself.
"""
import json
import os
import re
import shutil
import subprocess
import sys
import xml.etree.ElementTree as ET

VERIF = os.path.dirname(os.path.dirname(os.path.abspath(__file__)))


def sh(cmd, **kw):
    return subprocess.run(cmd, shell=True, capture_output=True, text=True, **kw)


def portable(text):
    head = 'import os as _os\nWT = _os.environ.get("DIMARRAY_TREE", "/repo")\nHERE = _os.path.dirname(_os.path.abspath(__file__))\n'
    text = re.sub(r'(["\'])/tmp/wt_[a-z]\d/_out', r'HERE + \1', text)
    text = re.sub(r'(["\'])/tmp/wt_[a-z]\d', r'WT + \1', text)
    return head + text


def stable_pass(tree):
    out = "/var/tmp/junit_seeded.xml"
    sh("cd %s && /venv/bin/python -m pytest -q -p no:cacheprovider --timeout=900 --continue-on-collection-errors --junitxml=%s" % (tree, out))
    base = set(json.load(open("/root/.vp/BASELINE.json"))["stable_pass"])
    ok = set()
    for tc in ET.parse(out).getroot().iter("testcase"):
        if not any(c.tag in ("failure", "error", "skipped") for c in tc):
            ok.add(tc.get("classname") + "::" + tc.get("name"))
    os.remove(out)
    return len(base & ok), len(base), len(ok)


def main():
    out_dir, k, sid, props, needs = sys.argv[1:6]
    patch = os.path.join(out_dir, "patch%s.diff" % k)
    demo = os.path.join(out_dir, "demo%s.py" % k)
    note = os.path.join(out_dir, "note%s.txt" % k)
    dest = os.path.join(VERIF, "seeded", sid)
    os.makedirs(dest, exist_ok=True)
    shutil.copy(patch, os.path.join(dest, "patch.diff"))
    open(os.path.join(dest, "demo.py"), "w").write(portable(open(demo).read()))
    fake = os.path.join(out_dir, "fake_netCDF4")
    if os.path.isdir(fake) and "fake_netCDF4" in open(demo).read():
        if os.path.exists(os.path.join(dest, "fake_netCDF4")):
            shutil.rmtree(os.path.join(dest, "fake_netCDF4"))
        shutil.copytree(fake, os.path.join(dest, "fake_netCDF4"), ignore=shutil.ignore_patterns("__pycache__"))
    wt = "/tmp/wt_verify_%s" % sid
    sh("git -C /repo worktree remove --force %s" % wt)
    r = sh("git -C /repo worktree add -q --detach %s HEAD" % wt)
    assert r.returncode == 0, r.stderr
    ran = []
    try:
        shutil.copy("/repo/dimarray/_version.py", os.path.join(wt, "dimarray", "_version.py"))
        env = dict(os.environ, DIMARRAY_TREE=wt)
        d0 = subprocess.run(["/venv/bin/python", os.path.join(dest, "demo.py")], capture_output=True, text=True, env=env, cwd="/tmp")
        ran.append("demo on clean tree: exit %d" % d0.returncode)
        r = sh("git -C %s apply %s" % (wt, os.path.join(dest, "patch.diff")))
        assert r.returncode == 0, "patch does not apply: " + r.stderr
        npass, nbase, ntotal = stable_pass(wt)
        ran.append("pytest with patch: %d/%d stable baseline tests pass (%d passing in total)" % (npass, nbase, ntotal))
        d1 = subprocess.run(["/venv/bin/python", os.path.join(dest, "demo.py")], capture_output=True, text=True, env=env, cwd="/tmp")
        ran.append("demo with patch: exit %d (%s)" % (d1.returncode, (d1.stderr.strip().splitlines() or [""])[-1][:160]))
        ok = d0.returncode == 0 and d1.returncode != 0 and npass == nbase
    finally:
        sh("git -C /repo worktree remove --force %s" % wt)
    meta = {"id": sid, "properties": props.split(","), "needs": needs, "note": open(note).read().strip() if os.path.exists(note) else "",
            "confirmed": ok, "what_was_run": ran, "source": "independent sub-agent, given only the property text and a scratch worktree"}
    json.dump(meta, open(os.path.join(dest, "meta.json"), "w"), indent=1)
    print(sid, "CONFIRMED" if ok else "NOT-CONFIRMED", ran)
    if not ok:
        shutil.rmtree(dest)
    return 0 if ok else 1


if __name__ == "__main__":
    sys.exit(main())
