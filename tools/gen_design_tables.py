#!/venv/bin/python
"""Rewrite the table of seeded changes in DESIGN.md (between the SEEDED-TABLE markers) from seeded/*/meta.json."""
import glob, json, os
V = os.path.dirname(os.path.dirname(os.path.abspath(__file__)))
rows = ["| seeded change | property | needs | detected |", "|---|---|---|---|"]
n = nd = 0
for d in sorted(glob.glob(os.path.join(V, "seeded", "*"))):
    m = json.load(open(os.path.join(d, "meta.json")))
    n += 1
    det = "yes"
    if m.get("detected") is False:
        det = "**no** - " + m["detection_note"].split(":")[0].replace("NOT DETECTED", "").strip(" -") or "**no**"
        det = "**no** (" + m["detection_note"].split(";")[0].split(":", 1)[-1].strip()[:110] + ")"
    else:
        nd += 1
    rows.append("| `%s` | %s | %s | %s |" % (os.path.basename(d), ",".join(m["properties"]), m["needs"].replace("|", "/"), det))
rows.append("")
rows.append("%d kept, %d reported by the check of the property they break." % (n, nd))
p = os.path.join(V, "DESIGN.md")
s = open(p).read()
a, b = s.index("<!-- SEEDED-TABLE-BEGIN -->"), s.index("<!-- SEEDED-TABLE-END -->")
s = s[:a] + "<!-- SEEDED-TABLE-BEGIN -->\n" + "\n".join(rows) + "\n" + s[b:]
open(p, "w").write(s)
print(n, nd)
