#!/bin/bash
# Sensitivity aid (not a MANIFEST check): apply a patch to a scratch copy of /repo's dimarray package and run a check on it.
# usage: run_mutant.sh <patch> <PROP> [extra check.py args]
patch=$(readlink -f "$1"); prop=$2; shift 2
scratch=$(mktemp -d /var/tmp/dsim_mut.XXXXXX)
trap 'rm -rf "$scratch"' EXIT
cp -r /repo/dimarray "$scratch/dimarray"
( cd "$scratch" && patch -p1 -s < "$patch" ) || { echo "PATCH-FAILED $patch"; exit 3; }
VERIF_REPO="$scratch" /venv/bin/python /verif/check.py "$prop" --no-evidence "$@" 2>&1 | grep -E "^  violation |KNOWN|HARNESS|quick:|thorough:" | cut -c1-300 | head -6
exit ${PIPESTATUS[0]}
