#!/venv/bin/python
"""Timing hunt (development aid): executes only the "big" runs of the quick tier of the given properties and seeds, each in a forked
child with a 40 s alarm, and prints every run that takes more than 4 s.  usage: tools/timing_hunt.py C05,C15,C16 7,20,1"""
import sys, time, random, os
sys.path.insert(0,'/verif')
from dsim import kernel, checks
import dsim.driver
from concurrent.futures import ProcessPoolExecutor
import multiprocessing as mp
def work(job):
    prop,seed,a,b=job
    check=checks.get(prop); out=[]; n=0
    for idx in range(a,b):
        rng=random.Random(kernel.derive_seed(seed,prop,"quick",idx)); cfg=check.gen_cfg(rng,"quick")
        if not cfg.get('big'): continue
        n+=1
        t=time.time(); pid=os.fork()
        if pid==0:
            import signal; signal.alarm(40)
            try: kernel.run_one(check,cfg,rng=rng)
            except BaseException: pass
            finally: os._exit(0)
        _,st=os.waitpid(pid,0); dt=time.time()-t
        if dt>4 or st!=0: out.append((prop,seed,idx,round(dt,1),st,cfg.get('world'),cfg.get('max_len')))
    return n,out
if __name__=="__main__":
    jobs=[(p,s,i,i+2000) for p in sys.argv[1].split(',') for s in map(int,sys.argv[2].split(',')) for i in range(0,60000,2000)]
    tot=0
    with ProcessPoolExecutor(16, mp_context=mp.get_context("fork")) as ex:
        for n,r in ex.map(work,jobs):
            tot+=n
            if r: print(r, flush=True)
    print("done big runs:",tot)
