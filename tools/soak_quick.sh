#!/bin/bash
# multi-seed false-alarm soak of the quick checks
cd "$(dirname "$0")/.."
for seed in 20261003 1 5 7 8 10 19 20 21; do
  for p in C05 C13 C14 C15 C16 C19 C20; do
    out=$(VERIF_SEED=$seed timeout 400 /venv/bin/python ./check.py $p --tier quick --no-evidence 2>&1 | grep -E "violation|VIOLATION|HARNESS|KNOWN|quick:" | cut -c1-260)
    echo "seed=$seed $out"
  done
done
