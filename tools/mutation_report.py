#!/venv/bin/python
"""Summarise a run of tools/mutate.py (default /var/tmp/mutation.jsonl) into /verif/MUTATION.md."""
import collections, json, os, sys
src = sys.argv[1] if len(sys.argv) > 1 else "/var/tmp/mutation.jsonl"
recs = [json.loads(l) for l in open(src)]
stage = collections.Counter(r["stage1"] for r in recs)
surv = [r for r in recs if r["stage1"] == "survives-tests" and "checks" in r]
caught = [r for r in surv if r.get("caught")]
byfile = collections.defaultdict(lambda: [0, 0])
for r in surv:
    byfile[r["file"]][0] += 1
    byfile[r["file"]][1] += 1 if r.get("caught") else 0
out = ["# Mutation analysis of the anchor files (tools/mutate.py)", "",
       "Simple source mutants (statement deletion, negated conditions, swapped operators/constants, dropped copies) of the functions the",
       "claimed properties are anchored in. A mutant counts only if the pinned test-suite does not notice it (all 180 stable tests pass).",
       "Each such mutant was run against the quick checks (reduced to 8 000 runs) of the properties anchored in its file; every mutant",
       "no check reported then went through a second pass (`tools/mutate.py --recheck`, 6 000 runs) against all seven checks, because a file",
       "anchors more properties than the table in mutate.py lists (e.g. `bases.py` carries `put(inplace=False)`, which is C15's business).", "",
       "* mutants sampled: %d; syntax-invalid: %d; killed by the test-suite: %d; unnoticed by the test-suite and checked: %d" % (
           len(recs), stage.get("syntax", 0), stage.get("killed-by-tests", 0), len(surv)),
       "* reported as a VIOLATION by at least one check: **%d of %d**" % (len(caught), len(surv)), "",
       "Most survivors change behaviour that only the thirteen not-applicable properties describe (what an operation computes), are",
       "equivalent (dead code, redundant statements) or turn an operation into one that always raises, which no claimed property forbids;",
       "the survivors were read one by one and the relevant ones turned into generator/oracle improvements (see DESIGN section 11).", "",
       "| file | unnoticed by tests | caught by a check |", "|---|---|---|"]
for f, (n, c) in sorted(byfile.items()):
    out.append("| %s | %d | %d |" % (f, n, c))
out += ["", "## Caught", "", "| file:line | mutation | first violation |", "|---|---|---|"]
for r in caught:
    first = [v["first"] for v in r["checks"].values() if v["rc"] == 1][0]
    out.append("| %s:%d | %s `%s` | %s |" % (r["file"], r["line"], r["kind"], r["new"][:60].replace("|", "/"), first[:140].replace("|", "/")))
out += ["", "## Not caught", "", "| file:line | mutation | checks run |", "|---|---|---|"]
for r in surv:
    if not r.get("caught"):
        out.append("| %s:%d | %s `%s` | %s |" % (r["file"], r["line"], r["kind"], r["new"][:60].replace("|", "/"),
                                              ", ".join("%s:%s" % (k, "ok" if v["rc"] == 0 else "rc%d" % v["rc"]) for k, v in r["checks"].items())))
open(os.path.join(os.path.dirname(os.path.dirname(os.path.abspath(__file__))), "MUTATION.md"), "w").write("\n".join(out) + "\n")
print(len(recs), len(surv), len(caught))
