#!/bin/bash
# Run the pinned test-suite command with hooks off and verify that the 180 stable tests of BASELINE.json still pass.
out=$(mktemp /var/tmp/junit.XXXXXX.xml)
cd /repo && /venv/bin/python -m pytest -ra -q -p no:cacheprovider --timeout=900 --continue-on-collection-errors --junitxml=$out >/dev/null 2>&1
/venv/bin/python - "$out" <<'PY'
import json,sys,xml.etree.ElementTree as ET
base=set(json.load(open('/root/.vp/BASELINE.json'))['stable_pass'])
ok=set()
for tc in ET.parse(sys.argv[1]).getroot().iter('testcase'):
    if not any(c.tag in('failure','error','skipped') for c in tc):
        ok.add(tc.get('classname')+'::'+tc.get('name'))
missing=sorted(base-ok)
print("baseline stable tests passing: %d/%d; total passing now: %d"%(len(base&ok),len(base),len(ok)))
for m in missing[:10]: print("  MISSING",m)
sys.exit(1 if missing else 0)
PY
rc=$?
rm -f $out
exit $rc
