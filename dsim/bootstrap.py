"""Import dimarray from the tree under test, on top of the simulator's storage stand-in.

No code in /repo is changed: the netCDF4 stand-in is a package put on sys.path before the first
`import dimarray`, and `dimarray.io.nc.os` / `.glob` are rebound to SimFS shims afterwards.
"""
import os, sys, warnings

VERIF_DIR = os.path.dirname(os.path.dirname(os.path.abspath(__file__)))
_done = False

def repo_dir():
    return os.path.abspath(os.environ.get("VERIF_REPO", "/repo"))

def setup():
    global _done
    if _done:
        return
    repo = repo_dir()
    standin = os.path.join(VERIF_DIR, "dsim", "standin")
    for p in (standin, repo):
        if p in sys.path:
            sys.path.remove(p)
    sys.path.insert(0, standin)
    sys.path.insert(0, repo)
    warnings.simplefilter("ignore")
    os.environ.setdefault("MPLBACKEND", "Agg")
    import dimarray
    got = os.path.abspath(dimarray.__file__)
    if not got.startswith(repo + os.sep):
        raise RuntimeError("HARNESS-ERROR dimarray imported from %s, expected under %s" % (got, repo))
    import netCDF4
    if not getattr(netCDF4, "__dsim_standin__", False):
        raise RuntimeError("HARNESS-ERROR real netCDF4 imported instead of the stand-in")
    import dimarray.io.nc as ncio
    from dsim.standin import simfs
    ncio.os = simfs.OsShim()
    ncio.glob = simfs.GlobShim()
    _done = True
