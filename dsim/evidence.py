"""Evidence writer: what this run actually covered (schema: /root/.vp/EVIDENCE.schema.json)."""
import json
import os

from dsim import kernel

RULES = {
    "C15": "seeded histories of public API steps over a pool of live, partly aliased arrays/datasets; a history is non-trivial if >= 4 steps executed without raising and >= 2 objects were alive at the end; distinct = distinct step lists (hash of the recorded JSON)",
    "C05": "seeded histories mixing construction, reshaping, relabelling/renaming through aliases, cache-populating queries and twin probes; non-trivial if >= 1 in-place step and >= 1 probe were executed; distinct = distinct step lists",
    "C16": "seeded histories mixing attribute get/set/del of the four name classes on DimArray/Dataset/Axis with renames and value operations; non-trivial if >= 4 steps executed without raising; distinct = distinct step lists",
    "C13": "seeded Dataset mutation histories with rejected assignments placed at enumerated positions/templates; non-trivial if >= 2 accepted mutations and >= 1 rejected assignment; distinct = distinct step lists",
    "C14": "seeded Dataset histories followed by Dataset-wide operations compared with the per-variable DimArray operation; non-trivial if >= 1 Dataset-wide operation was compared on a dataset with >= 2 variables; distinct = distinct step lists",
    "C19": "seeded write/append/read histories against the simulated netCDF store and JSON round trips; non-trivial if >= 1 write and >= 1 read-back comparison happened; distinct = distinct step lists",
    "C20": "seeded histories of on-disk reads/assignments/unlimited appends/multi-file reads compared with the in-memory operation; non-trivial if >= 1 on-disk access was compared; distinct = distinct step lists",
}

COMPONENTS = {
    "real": ["dimarray.core (axes, dimarraycls, indexing, operation, align, reshape, transform, missingvalues)",
             "dimarray.dataset", "dimarray.io.nc", "NumPy"],
    "stub": ["netCDF4 (vendored stand-in dsim/standin/netCDF4 over SimFS)",
             "os.path.exists / os.remove / glob.glob as seen by dimarray.io.nc (SimFS shims)"],
    "absent_in_system": ["threads", "clock/timers", "network", "randomness"],
}


EXPECTED_REACH = {
    "C05": ["cfg:big_run", "c05:inits_seen", "c05:ctor_forms_checked", "c05:ctor_reject_ok", "c05:grouped_checked", "c05:mono_checked_cached",
            "c05:twin_compared:binop_array", "c05:twin_compared:align", "c05:twin_compared:reshape", "op:relabel:ok", "op:rename:ok",
            "op:ds_inplace:ok", "op:values_set:ok"],
    "C15": ["cfg:big_run", "c15:checked_pure", "c15:checked_inplace_outsiders", "c15:meta_mutated_inplace", "op:copy:ok", "op:align:ok", "op:reshape:ok",
            "op:ds_pure:ok", "op:dsop:ok", "op:ds_write:ok", "op:arr_write:ok"],
    "C16": ["cfg:big_run", "c16:route_get_member_shadowed", "c16:route_get_under_shadowed", "c16:route_get_dim_shadowed", "c16:route_del_member_shadowed",
            "c16:route_set_dim", "c16:route_del_public", "c16:route_attrs_assign_public", "c16:prop_keep_checked_nonempty",
            "c16:prop_drop_checked_nonempty", "c16:axis_keep_checked"],
    "C13": ["cfg:big_run", "fault:rejected_assignment", "c13:enum_positions_all_templates", "c13:enum_positions_sampled_templates", "c13:ctor_outer_join",
            "c13:axes_setitem_pos_users2", "c13:axes_setitem_name_users2", "c13:rename_var_dims", "c13:relabel_var_labels", "c13:rename_bulk_permutation",
            "c13:axes_assign", "c13:fork_copy", "c13:reject_k3_j2_newdim_before"],
    "C14": ["cfg:big_run", "c14:compared_take_some_lack_dim", "c14:compared_reduce_some_lack_dim", "c14:compared_reindex_axis_some_lack_dim",
            "c14:compared_interp_axis", "c14:compared_sort_axis", "c14:compared_take_axis", "c14:compared_ds_op_ds", "c14:compared_stack_ds",
            "c14:compared_concatenate_ds", "c14:adopted_result", "c13:cache_query"],
    "C19": ["cfg:big_run", "c19:ds_write_w", "c19:ds_write_a", "c19:arr_write_a_append", "c19:arr_write_a+_append", "c19:arr_write_w-_create", "c19:handle_set",
            "c19:handle_meta_axis", "c19:json_roundtrip", "c19:read_names", "c19:leaked_handles_finalized", "fault:rejected_file_operation_size_mismatch",
            "fault:storage_error@createVariable", "fault:crash@var[...] = write", "fault:sweep_steps", "fault:recovery_verified", "fault:kept_variable_verified"],
    "C20": ["cfg:big_run", "c20:index_getitem_label", "c20:index_ix_position", "c20:index_nloc_label", "c20:index_read_nc_position", "c20:index_ds_read_label",
            "c20:assign_label_dimarray", "c20:assign_position_ndarray", "c20:assign_seen_through_second_handle", "c20:unlimited_created",
            "c20:unlimited_extend_slice", "c20:unlimited_extend_inside", "c20:multi_stack_align", "c20:multi_concat", "fault:sweep_steps"],
}


def write(prop, tier, master, check, params, total, det, known_hits, unknown, wall_s, workers):
    stats = total["stats"]
    ops = {}
    probes = {}
    faults = {}
    for k, v in sorted(stats.items()):
        if k.startswith("op:"):
            ops[k[3:]] = v
        elif k.startswith("fault:"):
            faults[k[6:]] = v
        else:
            probes[k] = v
    samples = []
    for s in total["samples"][:2]:
        samples.append({"run_index": s["index"], "steps": s["steps"][:40], "summary": s["summary"]})
    if not samples:
        samples.append({"note": "no non-trivial violation-free run in this batch"})
    runs_per_s = total["n"] / max(total["wall"], 1e-9)
    cov = {
        "evaluations": total["n"],
        "distinct_nontrivial": len(total["nontrivial"]),
        "rule": RULES.get(prop, ""),
        "samples": samples,
        "simulated_steps": total["steps"],
        "runs_per_second": round(runs_per_s, 1),
        "seeds_per_hour_projected": int(runs_per_s * 3600),
        "steps_per_second": round(total["steps"] / max(total["wall"], 1e-9), 1),
        "simulated_time": "not applicable: the system under simulation reads no clock; progress is counted in logical steps",
        "workers": workers,
        "steps_by_op_and_outcome": ops,
        "faults_fired_by_kind": faults,
        "reach_probes": probes,
        "probes_stuck_at_zero": [k for k in EXPECTED_REACH.get(prop, []) if not (tier == "quick" and k.endswith("all_templates")) and not any(
            (kk == k or kk.startswith(k)) and v > 0 for kk, v in list(stats.items()) + [("fault:" + a, b) for a, b in faults.items()])],
        "distinct_abstract_states": len(total["states"]),
        "distinct_counts_capped_at": 4000000,
        "distinct_op_outcome_3grams": len(total["grams"]),
        "determinism_selftest": det,
        "components": COMPONENTS,
        "stopped_by_wall_cap": total.get("stopped_by_wall_cap", False),
        "known_findings_confirmed": dict(known_hits),
        "violation_classes_observed": dict(total["vcount"]),
        "replays_of_unlisted_violations": [u[0] for u in unknown],
        "master_seed": master,
        "tier_parameters": params,
    }
    doc = {
        "property_id": prop, "tier": tier, "seed": master, "level": check.level, "coverage": cov,
        "assumptions": ASSUMPTIONS.get(prop, []) + COMMON_ASSUMPTIONS,
        "wall_s": round(wall_s, 2), "violations": len(unknown),
    }
    d = os.path.join(kernel.VERIF_DIR, "evidence")
    os.makedirs(d, exist_ok=True)
    with open(os.path.join(d, "%s.json" % prop), "w") as f:
        json.dump(doc, f, indent=1, default=str, sort_keys=True)
    if tier == "thorough":       # kept next to the file the quick check rewrites
        with open(os.path.join(d, "%s.thorough.json" % prop), "w") as f:
            json.dump(doc, f, indent=1, default=str, sort_keys=True)


COMMON_ASSUMPTIONS = [
    "sampling, not proof: a clean batch is evidence only for the histories listed under coverage",
    "CPython 3.12, NumPy 2.5.3, the harness, its snapshot/compare code and reference models are trusted",
]
NC = ["every netCDF verdict is about dimarray/io/nc.py running against the vendored netCDF4 stand-in (contract S1-S8 in DESIGN.md), not against netCDF4-python/HDF5, which are not installed in this sandbox"]
ASSUMPTIONS = {
    "C19": NC, "C20": NC,
    "C05": ["the twin is rebuilt through the public constructors from the observable state (values, labels, dims, metadata, axis tol); float results are compared with rtol 1e-9 because NumPy's summation order depends on memory layout"],
    "C15": ["lazily cached grouped-axis labels and the cached monotonicity flag are not part of an operand's observable state"],
}
