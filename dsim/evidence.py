"""Evidence writer: what this run actually covered (schema: /root/.vp/EVIDENCE.schema.json)."""
import json
import os

from dsim import kernel

RULES = {
    "C15": "seeded histories of public API steps over a pool of live, partly aliased arrays/datasets; a history is non-trivial if >= 4 steps executed without raising and >= 2 objects were alive at the end; distinct = distinct step lists (hash of the recorded JSON)",
    "C05": "seeded histories mixing construction, reshaping, relabelling/renaming through aliases, cache-populating queries and twin probes; non-trivial if >= 1 in-place step and >= 1 probe were executed; distinct = distinct step lists",
    "C16": "seeded histories mixing attribute get/set/del of the four name classes on DimArray/Dataset/Axis with renames and value operations; non-trivial if >= 4 steps executed without raising; distinct = distinct step lists",
    "C13": "seeded Dataset mutation histories with rejected assignments placed at enumerated positions/templates; non-trivial if >= 2 accepted mutations and >= 1 rejected assignment; distinct = distinct step lists",
    "C14": "seeded Dataset histories followed by Dataset-wide operations compared with the per-variable DimArray operation; non-trivial if >= 1 Dataset-wide operation was compared on a dataset with >= 2 variables; distinct = distinct step lists",
    "C19": "seeded write/append/read histories against the simulated netCDF store and JSON round trips; non-trivial if >= 1 write and >= 1 read-back comparison happened; distinct = distinct step lists",
    "C20": "seeded histories of on-disk reads/assignments/unlimited appends/multi-file reads compared with the in-memory operation; non-trivial if >= 1 on-disk access was compared; distinct = distinct step lists",
}

COMPONENTS = {
    "real": ["dimarray.core (axes, dimarraycls, indexing, operation, align, reshape, transform, missingvalues)",
             "dimarray.dataset", "dimarray.io.nc", "NumPy"],
    "stub": ["netCDF4 (vendored stand-in dsim/standin/netCDF4 over SimFS)",
             "os.path.exists / os.remove / glob.glob as seen by dimarray.io.nc (SimFS shims)"],
    "absent_in_system": ["threads", "clock/timers", "network", "randomness"],
}


def write(prop, tier, master, check, params, total, det, known_hits, unknown, wall_s, workers):
    stats = total["stats"]
    ops = {}
    probes = {}
    faults = {}
    for k, v in sorted(stats.items()):
        if k.startswith("op:"):
            ops[k[3:]] = v
        elif k.startswith("fault:"):
            faults[k[6:]] = v
        else:
            probes[k] = v
    samples = []
    for s in total["samples"][:2]:
        samples.append({"run_index": s["index"], "steps": s["steps"][:40], "summary": s["summary"]})
    if not samples:
        samples.append({"note": "no non-trivial violation-free run in this batch"})
    runs_per_s = total["n"] / max(total["wall"], 1e-9)
    cov = {
        "evaluations": total["n"],
        "distinct_nontrivial": len(total["nontrivial"]),
        "rule": RULES.get(prop, ""),
        "samples": samples,
        "simulated_steps": total["steps"],
        "runs_per_second": round(runs_per_s, 1),
        "seeds_per_hour_projected": int(runs_per_s * 3600),
        "steps_per_second": round(total["steps"] / max(total["wall"], 1e-9), 1),
        "simulated_time": "not applicable: the system under simulation reads no clock; progress is counted in logical steps",
        "workers": workers,
        "steps_by_op_and_outcome": ops,
        "faults_fired_by_kind": faults,
        "reach_probes": probes,
        "probes_stuck_at_zero": [],
        "distinct_abstract_states": len(total["states"]),
        "distinct_counts_capped_at": 4000000,
        "distinct_op_outcome_3grams": len(total["grams"]),
        "determinism_selftest": det,
        "components": COMPONENTS,
        "stopped_by_wall_cap": total.get("stopped_by_wall_cap", False),
        "known_findings_confirmed": dict(known_hits),
        "violation_classes_observed": dict(total["vcount"]),
        "replays_of_unlisted_violations": [u[0] for u in unknown],
        "master_seed": master,
        "tier_parameters": params,
    }
    doc = {
        "property_id": prop, "tier": tier, "seed": master, "level": check.level, "coverage": cov,
        "assumptions": ASSUMPTIONS.get(prop, []) + COMMON_ASSUMPTIONS,
        "wall_s": round(wall_s, 2), "violations": len(unknown),
    }
    d = os.path.join(kernel.VERIF_DIR, "evidence")
    os.makedirs(d, exist_ok=True)
    with open(os.path.join(d, "%s.json" % prop), "w") as f:
        json.dump(doc, f, indent=1, default=str, sort_keys=True)


COMMON_ASSUMPTIONS = [
    "sampling, not proof: a clean batch is evidence only for the histories listed under coverage",
    "CPython 3.12, NumPy 2.5.3, the harness, its snapshot/compare code and reference models are trusted",
]
NC = ["every netCDF verdict is about dimarray/io/nc.py running against the vendored netCDF4 stand-in (contract S1-S8 in DESIGN.md), not against netCDF4-python/HDF5, which are not installed in this sandbox"]
ASSUMPTIONS = {
    "C19": NC, "C20": NC,
    "C05": ["the twin is rebuilt through the public constructors from the observable state (values, labels, dims, metadata, axis tol); float results are compared with rtol 1e-9 because NumPy's summation order depends on memory layout"],
    "C15": ["lazily cached grouped-axis labels and the cached monotonicity flag are not part of an operand's observable state"],
}
