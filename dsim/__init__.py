"""Deterministic simulation with fault injection for perrette/dimarray (see /verif/DESIGN.md)."""
