"""FileWorld: dimarray.io.nc / write_nc / read_nc / open_nc / JSON on top of the simulated netCDF store.

C19: write/append/read histories against a reference file model (round-trip equality, append keeps,
     writer unchanged, JSON round trip).
C20: on-disk indexing / assignment / unlimited appends / multi-file reads against the same operation
     performed in memory (real DimArray/Dataset code on the model's fully loaded copy).
Environmental faults (storage error or crash at the j-th storage call of a step) run in a separate
configuration with a deliberately narrow oracle (DESIGN 3.4).
"""
import copy as _copy
import json
import numpy as np

from dsim.kernel import Violation, h64
from dsim import values as V
from dsim.worlds.arrays import Skip, dec_index, gen_label_index, gen_pos_index
from dsim.standin.simfs import FS, Crash

PATHS = ["f0.nc", "f1.nc", "f2.nc"]   # relative: every process runs in its own private scratch directory
VARNAMES = ["va", "vb", "vc", "vd", "ve"]
DIMS = ["x", "y", "z", "t"]
META = ["units", "long_name", "scale", "tag", "note", "calendar"]


def file_cfg(rng, tier, prop):
    fmt = rng.choice(["NETCDF4", "NETCDF4", "NETCDF3_CLASSIC"])
    faults = rng.random() < 0.25 and prop != "C15"
    kinds = ["int", "float"] if fmt.startswith("NETCDF3") else V.LABEL_KINDS
    dims = DIMS[:rng.randint(2, 4)]
    cfg = {"world": "file", "format": fmt, "indexing": rng.choice(["label", "label", "position"]) if prop == "C20" else "label",
           "dim_names": dims, "dim_kind": {d: rng.choice(kinds) for d in DIMS + ["s", "m"]},
           "max_rank": rng.randint(1, 3), "max_len": rng.randint(1, 4), "min_len": 1,
           "orders": sorted(rng.sample(V.ORDERS, rng.randint(1, 3))), "label_kinds": kinds,
           "dtypes": ["f8", "f8", "i4", "i8", "i2"] if fmt.startswith("NETCDF3") else ["f8", "f8", "i4", "i8", "O", "i2"],
           "nan_rate": rng.choice([0.0, 0.2]), "meta_density": rng.choice([0.0, 0.6, 1.0]), "mutable_meta": False,
           "n_steps": rng.randint(4, 16 if tier == "quick" else 30), "faults": faults,
           "fault_kind": rng.choice(["error", "error", "crash"]), "n_faults": rng.randint(1, 2),
           "sweep": faults and rng.random() < (0.15 if tier == "quick" else 0.5),
           "explicit_format": rng.random() < 0.3, "c20_rate": {"C19": 0.15, "C20": 0.7, "C15": 0.3}[prop]}
    if rng.random() < 0.2:
        cfg["inf_rate"] = 0.1        # infinities are ordinary float data: they must come back as they went in
    if rng.random() < 0.06:
        cfg["max_len"], cfg["max_rank"], cfg["big"] = rng.choice([rng.randint(6, 24)] * 4 + [rng.randint(101, 130)]), min(cfg["max_rank"], 2), True
    return cfg


def gen_meta(rng, density):
    out = {}
    for nm in META:
        if rng.random() < density * 0.5:
            k = rng.randint(0, 3)
            out[nm] = [rng.choice(["m", "kg", "none", "1850", "2.0", "true", "[1]"]), rng.randint(-3, 40), rng.choice([0.5, 1.25, -2.0, 0.0]),
                       [rng.randint(0, 9) for _ in range(rng.randint(2, 3))] if rng.random() < 0.8 else [0, 99.5, rng.randint(1, 5)]][k]
    return out


def gen_dataset_spec(rng, cfg, dims_labels=None, nvars=None, names=None):
    dims = {}
    if dims_labels:
        for d, l in dims_labels.items():
            dims[d] = list(l)
    for d in cfg["dim_names"]:
        if d not in dims:
            dims[d] = V.gen_labels(rng, rng.randint(cfg["min_len"], cfg["max_len"]), cfg["dim_kind"][d], rng.choice(cfg["orders"]))
    nvars = rng.randint(0, 4) if nvars is None else nvars
    names = names or rng.sample(VARNAMES, nvars)
    vs = []
    used = []
    for nm in names:
        k = rng.randint(0, min(cfg["max_rank"], len(dims)))
        vd = rng.sample(list(dims), k)
        dt = rng.choice(cfg["dtypes"])
        shape = [len(dims[d]) for d in vd]
        vals = V.gen_values(rng, shape, dt, cfg["nan_rate"], cfg.get("inf_rate", 0.0))
        attrs = gen_meta(rng, cfg["meta_density"])
        if dt != "O" and rng.random() < 0.12:
            attrs["missing_value"] = -99            # declared missing value: never occurs in this variable's own data
        elif dt != "O" and shape and 0 not in shape and rng.random() < 0.12:
            vals = _poke(vals, -99 if dt != "f8" else -99.0)   # ordinary data that happens to equal another variable's missing value
        vs.append({"name": nm, "dims": vd, "dtype": dt, "values": vals, "attrs": attrs})
        if len(vd) >= 2 and rng.random() < 0.15:
            vs[-1]["forder"] = True
        for d in vd:
            if d not in used:
                used.append(d)
    axmeta = {d: gen_meta(rng, cfg["meta_density"] * 0.6) for d in used}
    for d in used:
        if rng.random() < 0.04:
            axmeta[d]["tol"] = rng.choice([0.75, "loose"])      # an attribute of the coordinate variable that happens to be called like a member of Axis
    spec = {"dims": {d: dims[d] for d in used}, "axattrs": axmeta,
            "vars": vs, "attrs": gen_meta(rng, cfg["meta_density"])}
    spare = [d for d in dims if d not in used]
    if spare and not dims_labels and rng.random() < 0.15:
        d = rng.choice(spare)
        spec["extra_axes"] = {d: dims[d]}       # an axis appended to the dataset that no variable uses
    if rng.random() < 0.2:
        spec["nc_kwargs"] = {"zlib": True, "complevel": rng.randint(1, 9)}
    return spec


def _poke(vals, x):
    if isinstance(vals, list):
        return [_poke(vals[0], x)] + vals[1:]
    return x


def var_array(vs, dims, axattrs=None):
    spec = {"dims": vs["dims"], "labels": [dims[d] for d in vs["dims"]], "dtype": vs["dtype"], "values": vs["values"],
            "attrs": vs.get("attrs", {}), "forder": vs.get("forder", False)}
    if axattrs:
        spec["axattrs"] = [axattrs.get(d, {}) for d in vs["dims"]]
    return V.build_array(spec)


def build_dataset(spec):
    from dimarray import Dataset
    ds = Dataset()
    for vs in spec["vars"]:
        ds[vs["name"]] = var_array(vs, spec["dims"])
    from dimarray import Axis
    for d, labs in spec.get("extra_axes", {}).items():
        if d not in ds.dims:
            ds.axes.append(Axis(V.label_array(labs), d))
    for d, aa in spec.get("axattrs", {}).items():
        if d in ds.dims:
            ds.axes[d].attrs.update(V._deepcopy_json(aa))
    ds.attrs.update(V._deepcopy_json(spec.get("attrs", {})))
    return ds


# --------------------------------------------------------------------------------- file model

class RefFile(object):
    def __init__(self, fmt):
        self.format = fmt
        self.dims = {}    # name -> {"labels": list or None, "attrs": dict, "unlimited": bool, "unknown": bool}
        self.vars = {}    # name -> {"dims": [...], "values": ndarray, "attrs": dict, "unknown": bool}
        self.attrs = {}
        self.attrs_unknown = False

    def add_array(self, name, a, axattrs_from=None):
        """Effect of writing DimArray `a` as variable `name` into this file (dims created if new)."""
        for i, d in enumerate(a.dims):
            if d not in self.dims:
                self.dims[d] = {"labels": V.labels_list(a.axes[i].values), "attrs": _copy.deepcopy(dict(a.axes[i].attrs)),
                                "unlimited": False, "unknown": False}
        vals = np.array(a.values, copy=True)
        if self.format.startswith("NETCDF3") and vals.dtype == np.int64:
            vals = vals.astype(np.int32)
        old = self.vars.get(name)
        attrs = _copy.deepcopy(dict(old["attrs"])) if old else {}
        attrs.update(_copy.deepcopy(dict(a.attrs)))
        self.vars[name] = {"dims": list(a.dims), "values": vals, "attrs": attrs, "unknown": False}

    def array(self, name):
        from dimarray import DimArray, Axis
        v = self.vars[name]
        axes = []
        for d in v["dims"]:
            labs = self.dims[d]["labels"]
            if labs is None:
                labs = list(range(v["values"].shape[len(axes)]))
            ax = Axis(V.label_array(labs), d)
            ax.attrs.update(_copy.deepcopy(self.dims[d]["attrs"]))
            axes.append(ax)
        a = DimArray(np.array(v["values"], copy=True), axes)
        a.attrs.update(_copy.deepcopy(v["attrs"]))
        return a

    def key(self):
        return (self.format, tuple((d, repr(v["labels"]), v["unlimited"]) for d, v in self.dims.items()),
                tuple((k, tuple(v["dims"]), V.nd_key(v["values"]), v["unknown"]) for k, v in self.vars.items()),
                V.attrs_key(self.attrs))


def meta_equal(got, want):
    """Container-insensitive metadata equality (a list may come back as a 1-D array, [x] as x)."""
    got = {k: v for k, v in got.items() if k != "_FillValue"}   # netCDF's own attribute, created from missing_value
    if set(map(str, got.keys())) != set(map(str, want.keys())):
        return False
    for k in want:
        if _loose(got[k]) != _loose(want[k]):
            return False
    return True


def _loose(v):
    n = V.norm_loose(v)
    if isinstance(n, tuple) and n and n[0] == "seq" and len(n) == 2:
        return n[1]
    return n


# --------------------------------------------------------------------------------- the world

class FileWorld(object):
    name = "FileWorld"

    def __init__(self, cfg, props):
        import dimarray
        self.da = dimarray
        from dsim.worlds.arrays import install_init_monitor
        install_init_monitor()
        for k, v in (("indexing.by", cfg.get("indexing", "label")), ("indexing.broadcast", True), ("op.broadcast", True),
                     ("op.reindex", True), ("align.join", "outer"), ("io.nc.format", cfg.get("format", "NETCDF4"))):
            dimarray.rcParams[k] = v
        FS.reset()
        FS.track = bool(cfg.get("faults"))
        self.cfg = cfg
        self.props = set(props)
        self.files = {}      # path -> RefFile
        self.handles = {}    # hid -> (path, mode, DatasetOnDisk)
        self.counts = []
        self.counter = 0
        self.n_writes = self.n_reads = self.n_disk = 0
        self.faults_left = cfg.get("n_faults", 0) if cfg.get("faults") else 0
        self.fault_pending = None
        self.recovery_due = 0
        self.plan = []

    # -- plumbing ---------------------------------------------------------------------------
    def count(self, k):
        self.counts.append(k)

    def pop_counts(self):
        c, self.counts = self.counts, []
        return c

    def summary(self):
        nt = (self.n_writes >= 1 and self.n_reads >= 1) if "C19" in self.props else self.n_disk >= 1
        return {"writes": self.n_writes, "reads": self.n_reads, "disk_ops": self.n_disk, "nontrivial": nt,
                "storage_calls": FS.total_calls, "faults_fired": len(FS.fired)}

    def state_key(self):
        parts = [(p, m.key()) for p, m in sorted(self.files.items())]
        parts.append(tuple(sorted((h, v[0], v[1]) for h, v in self.handles.items())))
        return "%016x" % h64(repr(parts))

    def finish(self):
        pass

    def close(self):
        self.da.rcParams["indexing.by"] = "label"
        self.da.rcParams["io.nc.format"] = "NETCDF4"
        FS.reset()

    def fmt_kw(self, rng):
        return {"format": self.cfg["format"]} if self.cfg.get("explicit_format") else {}

    # -- generation -------------------------------------------------------------------------
    def gen_step(self, rng):
        from dsim.worlds import file_ops
        from dsim.worlds.arrays import Skip
        for _ in range(6):
            try:
                st = file_ops.gen_step(self, rng)
                if st is not None and st.get("op") in ("ds_write", "arr_write") and rng.random() < 0.15:
                    st["alias"] = True      # the documented alias .write(...) of .write_nc(...)
                if st is not None and st.get("op") == "ds_write" and st.get("mode") == "a" and rng.random() < 0.3:
                    st["aplus"] = True      # 'a+' on a file that exists is an append
                if st is not None and st.get("op") == "arr_write" and st.get("mode") in ("a", "a+") and rng.random() < 0.2:
                    st["clobber"] = True    # clobber concerns mode 'w' only
                return st
            except (IndexError, ValueError, KeyError, Skip):
                continue        # a generator met a state it has no candidate for (empty choice): draw again
        return {"op": "ds_write", "path": PATHS[0], "mode": "w", "spec": gen_dataset_spec(rng, self.cfg)}

    def exec_step(self, step):
        from dsim.worlds import file_ops
        return file_ops.exec_step(self, step)
