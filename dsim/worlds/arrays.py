"""ArrayWorld: a population of live, partly aliased DimArrays / Datasets driven through the public API.

Oracles (each reported under its own property only):
  C15  operand_changed, copy_leak      (snapshot monitor around every step)
  C05  wf, ctor_forms, ctor_reject, grouped_stale, mono_stale, twin_diff
  C16  route_*, prop_keep, prop_drop, axis_keep
"""
import copy as _copy
import json
import numpy as np

from dsim.kernel import Violation, h64
from dsim import values as V


class Skip(Exception):
    """The step cannot be executed in the current state (e.g. its operand was shrunk away)."""


# ---------------------------------------------------------------------------------- init monitor
_init_sink = [None]
_wrapped = [False]


def install_init_monitor():
    """Wrap DimArray.__init__ (from the harness, no source change) to see every constructed array."""
    if _wrapped[0]:
        return
    from dimarray import DimArray
    orig = DimArray.__init__

    def __init__(self, *args, **kwargs):
        orig(self, *args, **kwargs)
        sink = _init_sink[0]
        if sink is not None:
            try:
                msg = wf_problem(self)
            except Exception as e:  # the monitor itself never raises into library code
                msg = "monitor raised %s" % type(e).__name__
            sink[0] += 1
            if msg:
                sink.append(msg)
    __init__.__doc__ = orig.__doc__
    DimArray.__init__ = __init__
    _wrapped[0] = True


def wf_problem(a):
    """None if `a` is well-formed in the sense of C05, else a description."""
    vals = a.__dict__.get("_values")
    axes = a.__dict__.get("_axes")
    if not isinstance(vals, np.ndarray):
        return "values is %s" % type(vals).__name__
    n = list.__len__(axes) if isinstance(axes, list) else -1
    if n != vals.ndim:
        return "%d axes for %d dimensions" % (n, vals.ndim)
    names = []
    for i, ax in enumerate(list.__iter__(axes)):
        nm = ax.__dict__.get("_name")
        if not isinstance(nm, str) or not nm:
            return "axis %d name %r is not a non-empty str" % (i, nm)
        names.append(nm)
        v = ax.__dict__.get("_values")
        if v is not None:
            if not isinstance(v, np.ndarray) or v.ndim != 1:
                return "axis %s labels are not 1-D" % nm
            size = v.size
        else:  # grouped axis whose labels are not computed: size is what the constructor used
            size = ax.size
        if int(size) != vals.shape[i]:
            return "axis %s has length %d, shape entry is %d" % (nm, size, vals.shape[i])
    if len(set(names)) != len(names):
        return "duplicate dimension names %r" % (names,)
    return None


# ---------------------------------------------------------------------------------- helpers

def enc_index(ix):
    return ix  # already JSON (see gen_index)


def dec_index(e):
    k = e["k"]
    if k == "s":
        return e["v"]
    if k == "l":
        return list(e["v"])
    if k == "a":
        return np.array(e["v"], dtype=object) if e["v"] and isinstance(e["v"][0], str) else np.array(e["v"])
    if k == "ns":       # the same scalar as a NumPy scalar
        v = e["v"]
        return np.str_(v) if isinstance(v, str) else (np.float64(v) if isinstance(v, float) else np.int64(v))
    if k == "au":       # string labels as a NumPy unicode array rather than an object array
        return np.array(e["v"])
    if k == "r":        # positions as a range
        return range(*e["v"])
    if k == "dm":       # a boolean mask / a list of positions held in a one-dimensional DimArray named e["d"]
        from dimarray import DimArray
        return DimArray(np.array(e["v"]), dims=[e["d"]])
    if k == "ml":       # a boolean mask as a plain list
        return [bool(x) for x in e["v"]]
    if k == "m":
        return np.array(e["v"], dtype=bool)
    if k == "sl":
        return slice(*e["v"])
    if k == "all":
        return slice(None)
    if k == "e":
        return Ellipsis
    raise ValueError(k)


def plain_labels(ax):
    """Labels of a plain axis as Python values, or None for a grouped axis (never computes caches)."""
    from dimarray.core.axes import MultiAxis
    if isinstance(ax, MultiAxis):
        return None
    v = ax.__dict__.get("_values")
    if v is None or v.ndim != 1:
        return None
    out = v.tolist()
    for x in out:
        if isinstance(x, (tuple, list)) or x is None or (isinstance(x, float) and x != x):
            return None
    return out


def ax_len(ax):
    v = ax.__dict__.get("_values")
    if v is not None:
        return int(v.size)
    return int(ax.size)


def gen_label_index(rng, labs, allow_absent=True):
    """A label index for an axis with plain labels `labs`."""
    n = len(labs)
    r = rng.random()
    if n == 0:
        return {"k": "all"} if r < 0.7 else {"k": "l", "v": []}
    if r < 0.30:
        return {"k": "s" if rng.random() < 0.85 else "ns", "v": rng.choice(labs)}
    if r < 0.36 and allow_absent:
        return {"k": "s", "v": absent_label(rng, labs)}
    if r < 0.56:
        m = rng.randint(0, min(n, 3)) if n <= 6 or rng.random() < 0.6 else rng.randint(4, n)   # long lists on long axes
        return {"k": "l", "v": [rng.choice(labs) for _ in range(m)]}
    if r < 0.62:
        m = rng.randint(1, 3) if n <= 6 or rng.random() < 0.6 else rng.randint(4, n)
        return {"k": "au" if isinstance(labs[0], str) and rng.random() < 0.4 else "a", "v": [rng.choice(labs) for _ in range(m)]}
    if r < 0.74:
        return {"k": "m" if rng.random() < 0.8 else "ml", "v": [rng.random() < 0.5 for _ in range(n)]}
    if r < 0.90:
        a, b = rng.choice(labs + [None]), rng.choice(labs + [None])
        st = rng.choice([None, None, 2, -1])
        return {"k": "sl", "v": [a, b, st]}
    return {"k": "all"}


def gen_pos_index(rng, n):
    r = rng.random()
    if n == 0:
        return {"k": "all"}
    if r < 0.3:
        return {"k": "s" if rng.random() < 0.85 else "ns", "v": rng.randint(-n, n - 1)}
    if r < 0.34:
        a = rng.randint(0, n - 1)
        return {"k": "r", "v": [a, rng.randint(a, n)] + ([2] if rng.random() < 0.3 else [])}
    if r < 0.5:
        m = rng.randint(0, 3) if n <= 6 or rng.random() < 0.6 else rng.randint(4, n)
        return {"k": "l" if rng.random() < 0.7 or m == 0 else "a", "v": [rng.randint(-n, n - 1) for _ in range(m)]}
    if r < 0.62:
        return {"k": "m" if rng.random() < 0.8 else "ml", "v": [rng.random() < 0.5 for _ in range(n)]}
    if r < 0.88:
        return {"k": "sl", "v": [rng.choice([None, 0, 1, -1]), rng.choice([None, n, 1, -1]), rng.choice([None, None, 2, -1])]}
    return {"k": "all"}


def absent_label(rng, labs):
    if labs and isinstance(labs[0], str):
        return "zz"
    if labs and isinstance(labs[0], float):
        return 97.25
    return 97


def fresh_labels(rng, n, like=None, avoid=()):
    """n unique labels, optionally of the kind of `like`."""
    kind = None
    if like:
        kind = "str" if isinstance(like[0], str) else ("float" if isinstance(like[0], float) else "int")
    return V.gen_labels(rng, n, kind)


class UF(object):
    def __init__(self):
        self.p = {}

    def add(self, x):
        self.p.setdefault(x, x)

    def find(self, x):
        self.add(x)
        while self.p[x] != x:
            self.p[x] = self.p[self.p[x]]
            x = self.p[x]
        return x

    def union(self, a, b):
        ra, rb = self.find(a), self.find(b)
        if ra != rb:
            self.p[rb] = ra


# ---------------------------------------------------------------------------------- the world

class ArrayWorld(object):
    name = "ArrayWorld"

    def __init__(self, cfg, props):
        import dimarray
        from dsim.worlds import array_ops
        install_init_monitor()
        self.da = dimarray
        self.cfg = cfg
        self.props = set(props)
        self.ops = array_ops.REGISTRY
        for k, v in (("indexing.by", "label"), ("indexing.broadcast", True), ("op.broadcast", True),
                     ("op.reindex", True), ("align.join", "outer"), ("display.max", 100),
                     ("io.nc.format", "NETCDF4")):
            dimarray.rcParams[k] = v
        for k, v in sorted(cfg.get("options", {}).items()):
            dimarray.rcParams[k] = v        # a non-default global option for this run (reset by the next run's defaults)
        self.objs = {}
        self.order = []
        self.uf = UF()
        self.counter = 0
        self.counts = []
        self.override = None
        self.n_probe = 0
        self.n_ok = 0
        self.n_inplace = 0
        self.n_raise = 0
        self.fam_weights = cfg.get("families") or {}
        self.plan = []
        self.force_a = None

    # -- bookkeeping -------------------------------------------------------------------
    def count(self, key):
        self.counts.append(key)

    def pop_counts(self):
        c, self.counts = self.counts, []
        return c

    def new_id(self):
        self.counter += 1
        return "o%d" % self.counter

    def get(self, oid):
        if self.override and oid in self.override:
            return self.override[oid]
        if oid not in self.objs:
            raise Skip(oid)
        return self.objs[oid]

    def arr(self, oid):
        o = self.get(oid)
        if not isinstance(o, self.da.DimArray):
            raise Skip(oid)
        return o

    def dset(self, oid):
        o = self.get(oid)
        if not isinstance(o, self.da.Dataset):
            raise Skip(oid)
        return o

    SIZE_CAP = 40000      # elements; "big" runs would otherwise multiply their way to hundreds of millions of cells

    def too_large(self, ids):
        """Would an operation over these pool objects, broadcast against each other, exceed the size cap?"""
        dims = {}
        for i in ids:
            o = self.objs.get(i)
            if isinstance(o, self.da.DimArray):
                for d, n in zip(o.dims, o.shape):
                    dims[d] = max(dims.get(d, 1), n)
            elif isinstance(o, self.da.Dataset):
                for ax in o.axes:
                    dims[ax.name] = max(dims.get(ax.name, 1), ax.size)
        est = 1
        for n in dims.values():
            est *= max(1, n)
        return est > self.SIZE_CAP

    def store(self, oid, obj, parents=(), fresh=False):
        if oid is None or oid in self.objs:
            return
        if not isinstance(obj, (self.da.DimArray, self.da.Dataset)):
            return
        if isinstance(obj, self.da.DimArray) and obj.size > self.SIZE_CAP:
            self.count("result_too_large_not_kept")
            return
        if isinstance(obj, self.da.DimArray):
            from dimarray.core.axes import MultiAxis
            for i, ax in enumerate(list.__iter__(obj._axes)):
                if isinstance(ax, MultiAxis) and i < len(obj.shape) and obj.shape[i] > 2000:
                    # whatever produced it (flatten, a reduction or cumulative operation over a tuple of axes): a grouped axis
                    # recomputes its tuple labels on every access, element-wise walks over it are quadratic
                    self.count("result_grouped_axis_too_long_not_kept")
                    return
        self.objs[oid] = obj
        self.order.append(oid)
        self.uf.add(oid)
        if not fresh:
            for p in parents:
                if p in self.objs:
                    self.uf.union(p, oid)

    def drop(self, oid):
        if oid in self.objs:
            del self.objs[oid]
            self.order.remove(oid)

    def arrays(self, pred=None):
        out = []
        for oid in self.order:
            o = self.objs[oid]
            if isinstance(o, self.da.DimArray) and (pred is None or pred(o)):
                out.append(oid)
        return out

    def datasets(self):
        return [oid for oid in self.order if isinstance(self.objs[oid], self.da.Dataset)]

    def names_near(self, axis_obj):
        """Dimension names of every live object that holds this very Axis object (also as a group member)."""
        from dimarray.core.axes import MultiAxis
        names = set()

        def holds(axes):
            for ax in list.__iter__(axes):
                if ax is axis_obj:
                    return True
                if isinstance(ax, MultiAxis) and holds(ax.axes):
                    return True
            return False

        def allnames(axes, acc):
            for ax in list.__iter__(axes):
                acc.add(ax.__dict__.get("_name"))
                if isinstance(ax, MultiAxis):
                    allnames(ax.axes, acc)

        for oid in self.order:
            o = self.objs[oid]
            if isinstance(o, self.da.Dataset):
                axes_lists = [o._axes] + [dict.__getitem__(o, k)._axes for k in dict.keys(o)]
                if any(holds(al) for al in axes_lists):
                    for al in axes_lists:
                        allnames(al, names)
            else:
                if holds(o._axes):
                    allnames(o._axes, names)
        return sorted(n for n in names if isinstance(n, str))

    def n_holders(self, axis_obj):
        """Number of live objects that hold this very Axis object (also as a group member or through a Dataset variable)."""
        from dimarray.core.axes import MultiAxis

        def holds(axes):
            for ax in list.__iter__(axes):
                if ax is axis_obj or (isinstance(ax, MultiAxis) and holds(ax.axes)):
                    return True
            return False
        n = 0
        for oid in self.order:
            o = self.objs[oid]
            if isinstance(o, self.da.Dataset):
                n += any(holds(al) for al in [o._axes] + [dict.__getitem__(o, k)._axes for k in dict.keys(o)])
            else:
                n += holds(o._axes)
        return n

    # -- state -----------------------------------------------------------------------
    def state_key(self):
        parts = []
        for oid in self.order:
            parts.append((oid, V.snap(self.objs[oid]), self._cache_flags(self.objs[oid])))
        return "%016x" % h64(repr(parts))

    def _cache_flags(self, o):
        from dimarray.core.axes import MultiAxis
        out = []
        if isinstance(o, self.da.DimArray):
            for ax in list.__iter__(o._axes):
                if isinstance(ax, MultiAxis):
                    out.append(("g", ax.__dict__.get("_values") is not None))
                else:
                    out.append(("m", ax.__dict__.get("_monotonic")))
        return tuple(out)

    def summary(self):
        return {"live": len(self.order), "probes": self.n_probe, "ok": self.n_ok, "inplace": self.n_inplace,
                "raised": self.n_raise}

    def finish(self):
        pass

    def close(self):
        _init_sink[0] = None

    # -- generation --------------------------------------------------------------------
    # -- scenario plans: derive an alias, populate a cache, mutate one side, probe the other ------------
    def gen_with(self, rng, opname, a_id, tries=6):
        for _ in range(tries):
            self.force_a = a_id
            try:
                st = self.ops[opname].gen(self, rng)
            finally:
                self.force_a = None
            if st is not None and a_id in [st.get("a"), st.get("b")] + st.get("others", []):
                st["op"] = opname
                return st
        return None

    def _start_scenario(self, rng):
        ids = self.arrays(lambda a: a.ndim > 0)
        if not ids:
            return
        a_id = rng.choice(ids)
        b_id = self.new_id()
        world = self

        def derive(w, r):
            a = w.objs.get(a_id)
            if a is None:
                return None
            if r.random() < 0.45:  # a slice along one dimension keeps the label buffer
                idx = []
                k = r.randrange(a.ndim)
                for i, ax in enumerate(list.__iter__(a._axes)):
                    labs = plain_labels(ax)
                    if i == k and labs:
                        lo, hi = sorted(r.sample(range(len(labs)), min(2, len(labs))))[0], len(labs) - 1
                        if r.random() < 0.5:
                            idx.append({"k": "sl", "v": [labs[lo], labs[hi], None]})
                            via = "[]"
                        else:
                            idx.append({"k": "sl", "v": [lo, None, None]})
                            via = "ix"
                    else:
                        idx.append({"k": "all"})
                        via = locals().get("via", "[]")
                if any(e["k"] == "sl" and isinstance(e["v"][0], int) and via == "ix" for e in idx) or via == "ix":
                    idx = [e if e["k"] != "sl" or isinstance(e["v"][0], int) or e["v"][0] is None else {"k": "all"} for e in idx]
                    return {"op": "ix", "a": a_id, "idx": idx, "via": "ix", "out": b_id}
                return {"op": "getitem", "a": a_id, "idx": idx, "via": "[]", "out": b_id}
            nm = r.choice(["transpose", "squeeze", "flatten", "newaxis", "unary", "flatten", "reshape", "transpose"])
            st = w.gen_with(r, nm, a_id)
            if st is not None:
                st["out"] = b_id
            return st

        def query(w, r):
            tgt = r.choice([a_id, b_id, b_id])
            if tgt not in w.objs:
                return None
            st = w.gen_with(r, "query", tgt)
            if st is not None and r.random() < 0.7 and w.objs[tgt].ndim > 0:
                st["what"] = "mono"
                st["axis"] = r.randrange(w.objs[tgt].ndim)
                st.pop("lab", None)
            return st

        side = rng.random() < 0.7

        def mutate(w, r):
            tgt = a_id if side else b_id
            if tgt not in w.objs:
                return None
            return w.gen_with(r, r.choice(["relabel", "relabel", "relabel", "rename", "setitem"]), tgt)

        def probe(w, r):
            tgt = b_id if side else a_id
            if tgt not in w.objs:
                return None
            st = w.gen_with(r, "probe", tgt)
            if st is not None:
                st["mono"] = True
            return st

        plan = [derive]
        if rng.random() < 0.8:
            plan.append(query)
        plan.append(mutate)
        if rng.random() < 0.3:
            plan.append(mutate)
        plan.append(probe)
        self.plan = plan

    def gen_step(self, rng):
        cfg = self.cfg
        plan = getattr(self, "plan", None)
        while plan:
            f = plan.pop(0)
            try:
                st = f(self, rng)
            except (IndexError, ValueError, KeyError, Skip):
                st = None
            if st is not None:
                return st
            self.plan = plan = []
        if self.order and rng.random() < cfg.get("scenario_rate", 0.0) and len(self.order) < cfg.get("pool", 6) + 2:
            self._start_scenario(rng)
            if self.plan:
                return self.gen_step(rng)
        if len(self.order) >= cfg.get("pool", 6):
            victim = rng.choice(self.order)
            return {"op": "drop", "a": victim}
        if len(self.arrays()) < 2 or rng.random() < 0.06:
            return self.ops["construct"].gen(self, rng)
        fams = self.fam_weights
        names = cfg["_opnames"] if "_opnames" in cfg else None
        if names is None:
            names = [n for n, op in self.ops.items() if fams.get(op.family, 0) > 0]
            names.sort()
            cfg["_opnames"] = names
            cfg["_opweights"] = [fams[self.ops[n].family] * self.ops[n].weight for n in names]
        for _ in range(12):
            nm = rng.choices(names, cfg["_opweights"])[0]
            try:
                st = self.ops[nm].gen(self, rng)
            except (IndexError, ValueError, KeyError, Skip):
                st = None       # a generator met a state it has no candidate for (empty choice): try another op
            if st is not None:
                st["op"] = nm
                # keep only some results alive, the more so the fuller the pool is
                fill = len(self.order) / float(max(1, cfg.get("pool", 6)))
                if "out" in st and self.ops[nm].kind != "ctor" and rng.random() < 0.15 + 0.6 * fill:
                    for k in ("out", "out2", "out3"):
                        st.pop(k, None)
                return st
        return self.ops["construct"].gen(self, rng)

    # -- execution ---------------------------------------------------------------------
    def exec_step(self, step):
        opname = step["op"]
        if opname == "drop":
            self.drop(step["a"])
            return "ok"
        op = self.ops[opname]
        try:
            operands = [i for i in op.operands(step) if i is not None]
            for i in operands:
                self.get(i)
        except Skip:
            return "skipped"
        if self.too_large(operands):
            self.count("skipped_too_large")
            return "skipped"
        if opname in ("flatten", "reshape", "to_list", "probe") and any(getattr(self.objs.get(i), "size", 0) > 2000 for i in operands):
            # a grouped axis recomputes its n tuple labels on every access: element-wise walks over it are quadratic
            self.count("skipped_grouped_axis_too_long")
            return "skipped"
        c15 = "C15" in self.props
        c05 = "C05" in self.props
        c16 = "C16" in self.props
        before = {oid: V.snap(self.objs[oid]) for oid in self.order} if c15 else None
        pre16 = op.pre16(self, step) if c16 and op.prop16 else None
        sink = [0]
        _init_sink[0] = sink if c05 else None
        result, exc = None, None
        try:
            result = op.run(self, step)
        except Skip:
            _init_sink[0] = None
            return "skipped"
        except Violation:
            _init_sink[0] = None
            raise
        except RecursionError as e:
            exc = e
        except Exception as e:
            exc = e
        finally:
            _init_sink[0] = None
        outcome = "ok:" + V.result_class(result) if exc is None else "raise:" + type(exc).__name__
        if exc is None:
            self.n_ok += 1
            if op.kind == "inplace":
                self.n_inplace += 1
        else:
            self.n_raise += 1
        # ---- C15
        if c15:
            if op.kind != "inplace":
                for oid in self.order:
                    after = V.snap(self.objs[oid])
                    if after != before[oid]:
                        raise Violation("C15", "operand_changed", "%s (%s) changed %s: %s" % (
                            opname, outcome, oid, V.describe_snap_diff(before[oid], after)))
                self.count("c15:checked_pure")
            else:
                tgt = op.target(step)
                allowed = set()
                for t in tgt:
                    if t in self.objs:
                        allowed.add(self.uf.find(t))
                n_out = 0
                for oid in self.order:
                    if self.uf.find(oid) in allowed:
                        continue
                    n_out += 1
                    after = V.snap(self.objs[oid])
                    if after != before[oid]:
                        kind = "copy_leak" if self._related_by_copy(oid, tgt) else "operand_changed"
                        raise Violation("C15", kind, "in-place %s on %s (%s) changed unrelated %s: %s" % (
                            opname, tgt, outcome, oid, V.describe_snap_diff(before[oid], after)))
                if n_out:
                    self.count("c15:checked_inplace_outsiders")
        # ---- C05 well-formedness
        if c05:
            if len(sink) > 1:
                raise Violation("C05", "wf", "%s constructed a malformed array: %s" % (opname, sink[1]))
            if sink[0]:
                self.count("c05:inits_seen")
            for r in self._result_arrays(result):
                msg = wf_problem(r)
                if msg:
                    raise Violation("C05", "wf", "%s returned a malformed array: %s" % (opname, msg))
            if op.kind == "inplace":
                # the target of an in-place step must still have one axis of the right length per dimension
                # (two equal names after a rename through an alias are excused, see 5.1)
                for t in op.target(step):
                    o = self.objs.get(t)
                    if isinstance(o, self.da.DimArray):
                        msg = wf_problem(o)
                        if msg and not msg.startswith("duplicate"):
                            raise Violation("C05", "wf", "after in-place %s (%s) the array is malformed: %s" % (opname, outcome, msg))
        # ---- C16 propagation
        if c16 and op.prop16 and exc is None:
            op.check16(self, step, result, pre16)
        # ---- store
        if exc is None:
            op.store(self, step, result)
        return outcome

    def _related_by_copy(self, oid, targets):
        src = getattr(self, "copy_of", {})
        for t in targets:
            if src.get(oid) == t or src.get(t) == oid:
                return True
        return False

    def _result_arrays(self, result):
        out = []
        if isinstance(result, self.da.DimArray):
            out.append(result)
        elif isinstance(result, self.da.Dataset):
            for k in dict.keys(result):
                out.append(dict.__getitem__(result, k))
        elif isinstance(result, (list, tuple)):
            for r in result:
                out.extend(self._result_arrays(r))
        return out
