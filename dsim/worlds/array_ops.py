"""Step alphabet of ArrayWorld: every op is (gen, run) over the public dimarray API.

`gen(w, rng)` looks at the live state and returns a concrete, JSON-serialisable step (or None);
`run(w, s)` executes a recorded step.  All arguments are fixed at generation time.
"""
import copy as _copy
import json
import numpy as np

from dsim.kernel import Violation
from dsim import values as V
from dsim.worlds.arrays import (Skip, dec_index, plain_labels, ax_len, gen_label_index, gen_pos_index,
                                absent_label, fresh_labels)

REGISTRY = {}


class Op(object):
    kind = "pure"        # pure | inplace | query | ctor
    prop16 = None        # keep | drop | None
    axis_keep = False    # axis metadata must survive on dims present in source and result
    weight = 1.0
    fresh = False        # result shares nothing with the operands by contract (copy, from_json)

    def __init__(self, name, family, gen, run, **meta):
        self.name, self.family, self._gen, self._run = name, family, gen, run
        for k, v in meta.items():
            setattr(self, k, v)

    def gen(self, w, rng):
        st = self._gen(w, rng)
        if st is not None:
            st.setdefault("op", self.name)
        return st

    def run(self, w, s):
        return self._run(w, s)

    def operands(self, s):
        out = [s.get("a"), s.get("b")]
        out.extend(s.get("others", []))
        return out

    def target(self, s):
        return [x for x in (s.get("a"), s.get("b") if s.get("merge_b") else None) if x]

    def store(self, w, s, result):
        parents = [p for p in self.operands(s) if p]
        if isinstance(result, (list, tuple)):
            for key, r in zip(("out", "out2", "out3"), result):
                w.store(s.get(key), r, parents, self.fresh)
        else:
            w.store(s.get("out"), result, parents, self.fresh)
        if self.kind == "inplace" and s.get("b"):
            w.uf.union(s["a"], s["b"])

    # ---- C16 propagation -------------------------------------------------------------
    def sources16(self, w, s):
        return [s.get("a")]

    def pre16(self, w, s):
        pre = []
        for oid in (self.sources16(w, s) if self.prop16 == "keep" else [x for x in self.operands(s) if x]):
            o = w.get(oid)
            if not isinstance(o, w.da.DimArray):
                pre.append(None)
                continue
            axa = {}
            for ax in list.__iter__(o._axes):
                axa[ax.__dict__.get("_name")] = V.attrs_key(ax.__dict__.get("_attrs", {}))
            pre.append((V.attrs_key(o._attrs), dict(o._attrs), axa))
        return pre

    def check16(self, w, s, result, pre):
        results = result if isinstance(result, (list, tuple)) else [result]
        if self.prop16 == "keep":
            for r, p in zip(results, pre if len(pre) == len(results) else pre * len(results)):
                if not isinstance(r, w.da.DimArray) or p is None:
                    continue
                if V.attrs_key(r.attrs) != p[0]:
                    raise Violation("C16", "prop_keep", "%s: result attrs %r != source attrs %r" % (
                        self.name, dict(r.attrs), p[1]))
                w.count("c16:prop_keep_checked" + ("_nonempty" if p[1] else ""))
                only = s.get("axis_keep_only")
                if self.axis_keep and (not s.get("no_axis_keep") or only):
                    for ax in list.__iter__(r._axes):
                        nm = ax.__dict__.get("_name")
                        if s.get("no_axis_keep") and nm not in only:
                            continue
                        if nm in p[2] and V.attrs_key(ax.__dict__.get("_attrs", {})) != p[2][nm]:
                            raise Violation("C16", "axis_keep", "%s: axis %s attrs %r, source had %r" % (
                                self.name, nm, dict(ax.attrs), p[2][nm]))
                    w.count("c16:axis_keep_checked")
        elif self.prop16 == "drop":
            for r in results:
                if not isinstance(r, w.da.DimArray):
                    continue
                for p in pre:
                    if p is None:
                        continue
                    for k in p[1]:
                        if k in r.attrs:
                            raise Violation("C16", "prop_drop", "%s: result carries operand metadata %r=%r" % (
                                self.name, k, r.attrs[k]))
                w.count("c16:prop_drop_checked" + ("_nonempty" if any(p and p[1] for p in pre) else ""))


def defop(name, family, **meta):
    def deco(pair):
        gen, run = pair()
        REGISTRY[name] = Op(name, family, gen, run, **meta)
        return pair
    return deco


# ---------------------------------------------------------------------------------- pickers

def pick_arr(w, rng, pred=None):
    forced = getattr(w, "force_a", None)
    if forced is not None:
        w.force_a = None
        if forced in w.objs and isinstance(w.objs[forced], w.da.DimArray) and (pred is None or pred(w.objs[forced])):
            return forced
        return None
    ids = w.arrays(pred)
    return rng.choice(ids) if ids else None


def pick_dim(w, rng, a, by_pos=0.3):
    """(name, reference) where reference is the name or the position."""
    if a.ndim == 0:
        return None, None
    i = rng.randrange(a.ndim)
    nm = a.dims[i]
    if rng.random() < by_pos:
        # positions count from the end too
        return nm, (i - a.ndim if rng.random() < 0.3 else i)
    return nm, nm


def out(w):
    return w.new_id()


def index_untouched(w, what, encoded, decoded):
    """An index handed over as a NumPy array is an operand too: it must come back as it went in."""
    if "C15" not in w.props:
        return
    for e, x in zip(encoded, decoded):
        if isinstance(x, np.ndarray):
            fresh = dec_index(e)
            if x.dtype != fresh.dtype or x.shape != fresh.shape or not (x == fresh).all():
                raise Violation("C15", "operand_changed", "%s changed the index array it was given: %r -> %r" % (what, fresh.tolist(), x.tolist()))


def keeps_list(w, what, seq, call):
    """The caller's list (its length and the identity of its items) is an operand too."""
    ids = [id(x) for x in seq] if isinstance(seq, list) else None
    try:
        return call()
    finally:
        if ids is not None and "C15" in w.props and [id(x) for x in seq] != ids:
            raise Violation("C15", "operand_changed", "%s changed the list of arrays it was given" % what)


NEWDIMS = ["p", "q", "r", "s"]


# ---------------------------------------------------------------------------------- construction

@defop("construct", "ctor", kind="ctor", weight=1.0)
def _construct():
    def gen(w, rng):
        spec = V.gen_array_spec(rng, w.cfg)
        forms = [0] + rng.sample([1, 2, 3, 4, 5, 6, 7, 8, 9, 10, 11, 12, 13], 1)
        return {"op": "construct", "spec": spec, "forms": forms, "out": out(w)}

    def run(w, s):
        a = V.build_array(s["spec"], s["forms"][0])
        if "C05" in w.props:
            for f in s["forms"][1:]:
                try:
                    b = V.build_array(s["spec"], f)
                except Exception as e:
                    raise Violation("C05", "ctor_forms", "constructor form %d raises %s: %s while form %d builds the array" % (
                        f, type(e).__name__, str(e)[:120], s["forms"][0]))
                d = V.diff_arrays(a, b)
                if d:
                    raise Violation("C05", "ctor_forms", "constructor forms %r disagree: %s" % (s["forms"], d))
                w.count("c05:ctor_forms_checked")
        return a
    return gen, run


@defop("construct_helper", "ctor", kind="ctor", weight=0.4)
def _construct_helper():
    def gen(w, rng):
        spec = V.gen_array_spec(rng, w.cfg, dtype="f8")
        return {"which": rng.choice(["zeros", "ones", "nans", "empty", "zeros_like", "ones_like", "array", "zeros_shape", "ones_shape", "noval", "nans_like", "empty_like"]),
                "spec": spec, "out": out(w)}

    def run(w, s):
        da = w.da
        spec = s["spec"]
        ref = V.build_array(spec, 0)
        pairs = [(d, V.label_array(l)) for d, l in zip(spec["dims"], spec["labels"])]
        which = s["which"]
        if which == "zeros":
            a = da.zeros(axes=pairs); exp = 0.0
        elif which == "ones":
            a = da.ones(axes=[V.label_array(l) for l in spec["labels"]], dims=list(spec["dims"])); exp = 1.0
        elif which == "nans":
            a = da.nans(axes=pairs); exp = None
        elif which == "noval":
            a = da.DimArray(axes=pairs); exp = None     # "empty data": values default to NaN
        elif which == "empty":
            a = da.empty(axes=pairs); exp = "any"
            a.values[...] = 0.0  # uninitialised memory would make the run non-replayable
        elif which in ("zeros_shape", "ones_shape"):
            shape = tuple(len(l) for l in spec["labels"])
            a = (da.zeros if which == "zeros_shape" else da.ones)(dims=tuple(spec["dims"]), shape=shape)
            exp = 0.0 if which == "zeros_shape" else 1.0
            ref = V.build_array(dict(spec, labels=[list(range(n)) for n in shape], axattrs=[]), 0)
        elif which == "zeros_like":
            a = da.zeros_like(ref); exp = 0.0
        elif which == "ones_like":
            a = da.ones_like(ref); exp = 1.0
        elif which == "nans_like":
            a = da.nans_like(ref); exp = None
        elif which == "empty_like":
            a = da.empty_like(ref); exp = "any"
            a.values[...] = 0.0
        else:
            a = da.array(V.values_array(spec), axes=pairs); exp = "ref"
        if "C05" in w.props:
            if a.dims != ref.dims:
                raise Violation("C05", "ctor_forms", "%s: dims %r != %r" % (which, a.dims, ref.dims))
            for ax, bx in zip(a.axes, ref.axes):
                d = V.diff_axis(ax, bx, attrs=False)
                if d:
                    raise Violation("C05", "ctor_forms", "%s: %s" % (which, d))
            if exp == "ref":
                d = V.diff_arrays(a, ref, attrs=False)
                if d:
                    raise Violation("C05", "ctor_forms", "array(): %s" % d)
            elif exp is None:
                if not np.all(np.isnan(a.values)):
                    raise Violation("C05", "ctor_forms", "nans(): not all NaN")
            elif exp != "any" and not np.all(a.values == exp):
                raise Violation("C05", "ctor_forms", "%s: wrong fill" % which)
            w.count("c05:ctor_forms_checked")
        return a
    return gen, run


@defop("construct_bad", "ctor", kind="ctor", weight=0.5)
def _construct_bad():
    def gen(w, rng):
        spec = V.gen_array_spec(rng, w.cfg, min_rank=1)
        return {"spec": spec, "how": rng.choice(["shape", "dupname", "shape_pairs", "dup_pairs", "dup_dims_only", "dup_helper", "dup_axes_names", "empty_name", "nonstr_name"]),
                "k": rng.randrange(len(spec["dims"]))}

    def run(w, s):
        from dimarray import DimArray, Axis
        spec = s["spec"]
        vals = V.values_array(spec)
        labs = [V.label_array(l) for l in spec["labels"]]
        dims = list(spec["dims"])
        k = s["k"]
        how = s["how"]
        if how in ("empty_name", "nonstr_name"):
            dims[k] = "" if how == "empty_name" else 7
            try:
                if s["k"] % 2:
                    bad = DimArray(vals, axes=[(d, l) for l, d in zip(labs, dims)])
                else:
                    bad = DimArray(vals, [Axis(l, d) for l, d in zip(labs, dims)])
            except Exception:
                w.count("c05:ctor_reject_ok")
                raise
            if "C05" in w.props:
                raise Violation("C05", "ctor_reject", "a dimension name %r was accepted: dims %r" % (dims[k], bad.dims))
            return None
        if how.startswith("shape"):
            labs[k] = np.concatenate([labs[k], labs[k][:1] if len(labs[k]) else np.array([0])])
            if len(labs[k]) >= 2 and labs[k][-1] == labs[k][0]:
                labs[k][-1] = absent_label(None, labs[k].tolist())
        else:
            if len(dims) < 2:
                raise Skip("rank")
            dims[k] = dims[(k + 1) % len(dims)]
            vals = np.zeros([len(l) for l in labs])
        try:
            if how == "dup_dims_only":
                bad = DimArray(vals, dims=list(dims))
            elif how == "dup_helper":
                bad = w.da.zeros(dims=tuple(dims), shape=vals.shape)
            elif how == "dup_axes_names":
                bad = DimArray(vals, axes=list(dims))
            elif how in ("shape", "dupname"):
                bad = DimArray(vals, [Axis(l, d) for l, d in zip(labs, dims)])
            else:
                bad = DimArray(vals, axes=[(d, l) for l, d in zip(labs, dims)])
        except Exception as e:
            w.count("c05:ctor_reject_ok")
            raise
        if "C05" in w.props:
            raise Violation("C05", "ctor_reject", "malformed request (%s) was accepted: dims %r shape %r" % (
                how, bad.dims, bad.shape))
        return None
    return gen, run


# ---------------------------------------------------------------------------------- indexing

def _gen_index_tuple(w, rng, a, positional):
    idx = []
    no_axis_keep = False
    for ax in list.__iter__(a._axes):
        labs = plain_labels(ax)
        if rng.random() < 0.35:
            idx.append({"k": "all"})
        elif positional or labs is None:
            if labs is None and not positional:
                return None, None
            idx.append(gen_pos_index(rng, ax_len(ax)))
        else:
            idx.append(gen_label_index(rng, labs))
    if idx and rng.random() < 0.15:  # trailing dims omitted, or an Ellipsis
        cut = rng.randrange(len(idx))
        if rng.random() < 0.5:
            idx = idx[:cut + 1]
        else:
            idx = idx[:cut] + [{"k": "e"}]
    return idx, no_axis_keep


@defop("getitem", "index", prop16="keep", axis_keep=True, weight=2.0)
def _getitem():
    def gen(w, rng):
        a_id = pick_arr(w, rng)
        a = w.arr(a_id)
        idx, _ = _gen_index_tuple(w, rng, a, False)
        if idx is None:
            return None
        return {"a": a_id, "idx": idx, "out": out(w), "via": rng.choice(["[]", "loc", "take", "nloc"])}

    def run(w, s):
        a = w.arr(s["a"])
        idx = tuple(dec_index(e) for e in s["idx"])
        try:
            if len(idx) == 1 and s["idx"][0]["k"] != "e" and s.get("via") == "[]":
                return a[idx[0]]
            via = s.get("via", "[]")
            if via == "[]":
                return a[idx]
            if via == "loc":
                return a.loc[idx]
            if via == "nloc":
                return a.nloc[idx]
            return a.take(idx)
        finally:
            index_untouched(w, "indexing by label", s["idx"], idx)
    return gen, run


@defop("ix", "index", prop16="keep", axis_keep=True, weight=1.5)
def _ix():
    def gen(w, rng):
        a_id = pick_arr(w, rng)
        a = w.arr(a_id)
        idx, _ = _gen_index_tuple(w, rng, a, True)
        st = {"a": a_id, "idx": idx, "out": out(w), "via": rng.choice(["ix", "iloc", "take", "take_broadcast"])}
        if st["via"] == "take_broadcast":
            st["no_axis_keep"] = True     # numpy-like fancy indexing merges the indexed axes into a new one ...
            if idx is not None and not any(e["k"] == "e" for e in idx):
                # ... but the axes that are only sliced stay what they were, metadata included
                st["axis_keep_only"] = [d for i, d in enumerate(a.dims) if i >= len(idx) or idx[i]["k"] in ("all", "sl")]
        return st

    def run(w, s):
        a = w.arr(s["a"])
        idx = tuple(dec_index(e) for e in s["idx"])
        via = s.get("via")
        try:
            if via == "take_broadcast":
                return a.take(idx, indexing="position", broadcast=True)
            if via == "ix":
                return a.ix[idx]
            if via == "iloc":
                return a.iloc[idx]
            return a.take(idx, indexing="position")
        finally:
            index_untouched(w, "indexing by position", s["idx"], idx)
    return gen, run


@defop("take_dict", "index", prop16="keep", axis_keep=True, weight=1.5)
def _take_dict():
    def gen(w, rng):
        a_id = pick_arr(w, rng, lambda a: a.ndim > 0)
        if a_id is None:
            return None
        a = w.arr(a_id)
        sel = {}
        for ax in rng.sample(list(list.__iter__(a._axes)), rng.randint(1, a.ndim)):
            labs = plain_labels(ax)
            if labs is None:
                continue
            sel[ax.name] = gen_label_index(rng, labs)
        if not sel:
            return None
        form = rng.choice(["dict", "axis", "sel", "keepdims"])
        if form in ("axis", "keepdims"):
            k = sorted(sel)[0]
            sel = {k: sel[k]}
        return {"a": a_id, "sel": sel, "form": form, "out": out(w)}

    def run(w, s):
        a = w.arr(s["a"])
        sel = {k: dec_index(v) for k, v in s["sel"].items()}
        form = s["form"]
        if form == "dict":
            return a.take(sel)
        if form == "sel":
            return a.sel(**sel)
        k = list(sel)[0]
        if form == "axis":
            return a.take(sel[k], axis=k)
        return a.take(sel[k], axis=k, keepdims=True)
    return gen, run


@defop("take_axis", "index", prop16="keep", axis_keep=True, weight=1.0)
def _take_axis():
    def gen(w, rng):
        a_id = pick_arr(w, rng, lambda a: a.ndim > 0)
        if a_id is None:
            return None
        a = w.arr(a_id)
        nm, ref = pick_dim(w, rng, a)
        ax = a.axes[nm]
        labs = plain_labels(ax)
        n = ax_len(ax)
        if labs is not None and rng.random() < 0.5 and n:
            ind = [rng.choice(labs) for _ in range(rng.randint(1, 3))]
            return {"a": a_id, "axis": ref, "ind": ind, "indexing": "label", "mode": rng.choice(["raise", "clip"]), "out": out(w)}
        ind = [rng.randint(-n, n) for _ in range(rng.randint(1, 3))] if n else []
        return {"a": a_id, "axis": ref, "ind": ind, "indexing": "position", "mode": rng.choice(["raise", "clip", "wrap"]), "out": out(w)}

    def run(w, s):
        a = w.arr(s["a"])
        if s["mode"] == "wrap" and 0 in a.shape:
            raise Skip("numpy.take(mode='wrap') never returns on an empty axis")
        return a.take_axis(s["ind"], axis=s["axis"], indexing=s["indexing"], mode=s["mode"])
    return gen, run


@defop("compress_axis", "index", prop16="keep", axis_keep=True, weight=0.6)
def _compress_axis():
    def gen(w, rng):
        a_id = pick_arr(w, rng, lambda a: a.ndim > 0)
        if a_id is None:
            return None
        a = w.arr(a_id)
        nm, ref = pick_dim(w, rng, a)
        n = ax_len(a.axes[nm])
        return {"a": a_id, "axis": ref, "mask": [rng.random() < 0.6 for _ in range(n)], "out": out(w)}

    def run(w, s):
        return w.arr(s["a"]).compress_axis(np.array(s["mask"], dtype=bool), axis=s["axis"])
    return gen, run


@defop("bool_nd", "index", prop16="keep", weight=0.5)
def _bool_nd():
    def gen(w, rng):
        a_id = pick_arr(w, rng, lambda a: a.ndim > 1 and a.dtype.kind in "fi")
        if a_id is None:
            return None
        return {"a": a_id, "thr": rng.randint(-2, 6), "out": out(w)}

    def run(w, s):
        a = w.arr(s["a"])
        return a[a.values > s["thr"]]
    return gen, run


# ---------------------------------------------------------------------------------- transforms

REDUCERS = ["mean", "sum", "min", "max", "std", "var", "median", "prod", "any", "all", "ptp"]


def _gen_axis_arg(w, rng, a, allow_none=True, allow_tuple=True):
    r = rng.random()
    if a.ndim == 0 or (allow_none and r < 0.15):
        return None
    if allow_tuple and a.ndim >= 2 and r < 0.3:
        k = rng.randint(2, a.ndim)
        return list(rng.sample(list(a.dims), k))
    return pick_dim(w, rng, a)[1]


@defop("reduce", "transform", prop16="keep", weight=2.0)
def _reduce():
    def gen(w, rng):
        a_id = pick_arr(w, rng, lambda a: a.dtype.kind in "fib")
        if a_id is None:
            return None
        a = w.arr(a_id)
        return {"a": a_id, "fn": rng.choice(REDUCERS), "axis": _gen_axis_arg(w, rng, a),
                "skipna": rng.random() < 0.4, "out": out(w)}

    def run(w, s):
        a = w.arr(s["a"])
        ax = s["axis"]
        if isinstance(ax, list):
            ax = tuple(ax)
        return getattr(a, s["fn"])(axis=ax, skipna=s["skipna"])
    return gen, run


@defop("percentile", "transform", weight=0.4)
def _percentile():
    def gen(w, rng):
        a_id = pick_arr(w, rng, lambda a: a.dtype.kind in "fi" and a.ndim > 0 and a.size > 0)
        if a_id is None:
            return None
        a = w.arr(a_id)
        pct = rng.choice([50, 10.0, [50, 95], [25, 50, 75], [5]])
        return {"a": a_id, "pct": pct, "axis": pick_dim(w, rng, a)[1], "out": out(w)}

    def run(w, s):
        import dimarray as da
        return da.percentile(w.arr(s["a"]), s["pct"], axis=s["axis"])
    return gen, run


@defop("cumul", "transform", prop16="keep", weight=1.0)
def _cumul():
    def gen(w, rng):
        a_id = pick_arr(w, rng, lambda a: a.dtype.kind in "fi" and a.ndim > 0)
        if a_id is None:
            return None
        a = w.arr(a_id)
        fn = rng.choice(["cumsum", "cumprod", "argmin", "argmax", "diff"])
        st = {"a": a_id, "fn": fn, "axis": _gen_axis_arg(w, rng, a, allow_none=fn.startswith("arg"), allow_tuple=fn.startswith("cum")),
              "skipna": rng.random() < 0.3, "out": out(w)}
        if fn == "diff":
            st["scheme"] = rng.choice(["backward", "forward", "centered"])
            st["keepaxis"] = rng.random() < 0.3
            st["n"] = rng.choice([1, 1, 2])
        return st

    def run(w, s):
        a = w.arr(s["a"])
        if s["fn"] == "diff":
            return a.diff(axis=s["axis"], scheme=s["scheme"], keepaxis=s["keepaxis"], n=s["n"])
        ax = tuple(s["axis"]) if isinstance(s["axis"], list) else s["axis"]
        return getattr(a, s["fn"])(axis=ax, skipna=s["skipna"])
    return gen, run


# ---------------------------------------------------------------------------------- reshaping

@defop("transpose", "reshape", prop16="keep", weight=1.5)
def _transpose():
    def gen(w, rng):
        a_id = pick_arr(w, rng)
        a = w.arr(a_id)
        r = rng.random()
        if r < 0.25:
            return {"a": a_id, "how": "T", "out": out(w)}
        if a.ndim >= 2 and r < 0.45:
            i, j = rng.sample(range(a.ndim), 2)
            refs = [a.dims[i] if rng.random() < 0.5 else i, a.dims[j] if rng.random() < 0.5 else j]
            return {"a": a_id, "how": "swap", "args": refs, "out": out(w)}
        if a.ndim >= 1 and r < 0.6:
            return {"a": a_id, "how": "roll", "args": [pick_dim(w, rng, a)[1], rng.randint(0, a.ndim)], "out": out(w)}
        perm = list(range(a.ndim))
        rng.shuffle(perm)
        refs = [a.dims[i] if rng.random() < 0.6 else i for i in perm]
        return {"a": a_id, "how": "perm", "args": refs, "out": out(w), "star": rng.random() < 0.3}

    def run(w, s):
        a = w.arr(s["a"])
        how = s["how"]
        if how == "T":
            return a.T
        if how == "swap":
            return a.swapaxes(*s["args"])
        if how == "roll":
            return a.rollaxis(*s["args"])
        if s.get("star") and s["args"]:
            return a.transpose(*s["args"])
        return a.transpose(s["args"])
    return gen, run


@defop("newaxis", "reshape", prop16="keep", weight=1.0)
def _newaxis():
    def gen(w, rng):
        a_id = pick_arr(w, rng, lambda a: a.ndim < 4)
        if a_id is None:
            return None
        a = w.arr(a_id)
        cand = [d for d in V.DIM_NAMES + NEWDIMS if d not in w_all_dims(a)]
        if not cand:
            return None
        vals = None
        if rng.random() < 0.5:
            vals = V.gen_labels(rng, rng.randint(1, 3))
        st = {"a": a_id, "name": rng.choice(cand), "values": vals, "pos": rng.choice([0, -1, rng.randint(0, a.ndim)]), "out": out(w)}
        if rng.random() < 0.2:
            b_id = pick_arr(w, rng, lambda b: b.ndim > 0)
            if b_id is not None and b_id != a_id:
                st["b"] = b_id
                st["b_dim"] = rng.randrange(w.arr(b_id).ndim)
        return st

    def run(w, s):
        vals = None if s["values"] is None else V.label_array(s["values"])
        if s.get("b"):
            b = w.arr(s["b"])
            if s["b_dim"] >= b.ndim:
                raise Skip("rank")
            vals = b.axes[s["b_dim"]]
        return w.arr(s["a"]).newaxis(s["name"], values=vals, pos=s["pos"])
    return gen, run


def w_all_dims(a):
    """All dimension names of an array including the members of grouped axes."""
    names = []
    for d in a.dims:
        names.extend(d.split(","))
        names.append(d)
    return names


@defop("squeeze", "reshape", prop16="keep", weight=0.8)
def _squeeze():
    def gen(w, rng):
        a_id = pick_arr(w, rng, lambda a: a.ndim > 0)
        if a_id is None:
            return None
        a = w.arr(a_id)
        single = [i for i, n in enumerate(a.shape) if n == 1]
        if single and rng.random() < 0.7:
            i = rng.choice(single)
            ref = a.dims[i] if rng.random() < 0.6 else i
        elif rng.random() < 0.5:
            ref = None
        else:
            ref = pick_dim(w, rng, a)[1]
        return {"a": a_id, "axis": ref, "out": out(w)}

    def run(w, s):
        return w.arr(s["a"]).squeeze(s["axis"])
    return gen, run


@defop("repeat", "reshape", prop16="keep", weight=0.8)
def _repeat():
    def gen(w, rng):
        a_id = pick_arr(w, rng, lambda a: 1 in a.shape)
        if a_id is None:
            return None
        a = w.arr(a_id)
        i = rng.choice([i for i, n in enumerate(a.shape) if n == 1])
        r = rng.random()
        if r < 0.3:
            vals = rng.randint(1, 3)
        else:
            vals = V.gen_labels(rng, rng.randint(1, 3))
        st = {"a": a_id, "axis": a.dims[i] if rng.random() < 0.6 else i, "values": vals,
              "as_axis": r > 0.75, "name": a.dims[i], "out": out(w)}
        if rng.random() < 0.25:
            # the new labels come as the Axis object of another live array (whatever its name)
            b_id = pick_arr(w, rng, lambda b: b.ndim > 0)
            if b_id is not None and b_id != a_id:
                b = w.arr(b_id)
                st["b"] = b_id
                st["b_dim"] = rng.randrange(b.ndim)
        return st

    def run(w, s):
        from dimarray import Axis
        a = w.arr(s["a"])
        v = s["values"]
        if s.get("b"):
            b = w.arr(s["b"])
            if s["b_dim"] >= b.ndim:
                raise Skip("rank")
            return a.repeat(b.axes[s["b_dim"]], axis=s["axis"])
        if isinstance(v, list):
            v = V.label_array(v)
            if s["as_axis"]:
                return a.repeat(Axis(v, s["name"]))
        return a.repeat(v, axis=s["axis"])
    return gen, run


@defop("broadcast", "reshape", prop16="keep", weight=0.8)
def _broadcast():
    def gen(w, rng):
        a_id, b_id = pick_arr(w, rng), pick_arr(w, rng)
        if a_id == b_id:
            return None
        return {"a": a_id, "b": b_id, "out": out(w)}

    def run(w, s):
        return w.arr(s["a"]).broadcast(w.arr(s["b"]))
    return gen, run


@defop("flatten", "reshape", prop16="keep", weight=1.5)
def _flatten():
    def gen(w, rng):
        a_id = pick_arr(w, rng, lambda a: a.ndim >= 1)
        if a_id is None:
            return None
        a = w.arr(a_id)
        r = rng.random()
        if r < 0.3:
            dims = None
        else:
            k = rng.randint(1, a.ndim)
            idxs = rng.sample(range(a.ndim), k)
            dims = [a.dims[i] if rng.random() < 0.7 else i for i in idxs]
        ins = rng.choice([None, None, 0, rng.randint(0, max(0, a.ndim - 1))])
        return {"a": a_id, "dims": dims, "insert": ins, "reverse": rng.random() < 0.1, "out": out(w)}

    def run(w, s):
        a = w.arr(s["a"])
        kw = {}
        if s["insert"] is not None:
            kw["insert"] = s["insert"]
        if s["reverse"]:
            kw["reverse"] = True
        if s["dims"] is None:
            return a.flatten(**kw)
        return a.flatten(tuple(s["dims"]), **kw)
    return gen, run


@defop("unflatten", "reshape", prop16="keep", weight=1.2)
def _unflatten():
    def gen(w, rng):
        from dimarray.core.axes import MultiAxis
        a_id = pick_arr(w, rng, lambda a: any(isinstance(ax, MultiAxis) for ax in list.__iter__(a._axes)))
        if a_id is None:
            a_id = pick_arr(w, rng)
            return {"a": a_id, "axis": None, "out": out(w)}
        a = w.arr(a_id)
        g = [i for i, ax in enumerate(list.__iter__(a._axes)) if isinstance(ax, MultiAxis)]
        i = rng.choice(g)
        return {"a": a_id, "axis": rng.choice([None, i, a.dims[i]]), "out": out(w)}

    def run(w, s):
        return w.arr(s["a"]).unflatten(s["axis"])
    return gen, run


@defop("reshape", "reshape", prop16="keep", weight=1.2)
def _reshape():
    def gen(w, rng):
        a_id = pick_arr(w, rng)
        a = w.arr(a_id)
        base = []
        for d in a.dims:
            base.extend(d.split(","))
        if len(set(base)) != len(base):
            return None
        rng.shuffle(base)
        if rng.random() < 0.4:
            cand = [d for d in NEWDIMS + V.DIM_NAMES if d not in base]
            if cand:
                base.insert(rng.randint(0, len(base)), rng.choice(cand))
        if rng.random() < 0.3 and base:
            sizes = {}
            for ax in list.__iter__(a._axes):
                sizes[ax.name] = ax_len(ax)
            victims = [d for d in base if sizes.get(d) == 1]
            if victims:
                base.remove(rng.choice(victims))
        newdims = []
        i = 0
        while i < len(base):
            if i + 1 < len(base) and rng.random() < 0.35:
                k = rng.randint(2, min(3, len(base) - i))
                newdims.append(",".join(base[i:i + k]))
                i += k
            else:
                newdims.append(base[i])
                i += 1
        return {"a": a_id, "newdims": newdims, "out": out(w), "star": rng.random() < 0.3}

    def run(w, s):
        a = w.arr(s["a"])
        if s.get("star") and s["newdims"]:
            return a.reshape(*s["newdims"])
        return a.reshape(s["newdims"])
    return gen, run


# ---------------------------------------------------------------------------------- reindexing / sorting / interpolation

def _gen_new_labels(rng, labs):
    """Subset / superset / disjoint / permuted version of existing labels."""
    if not labs:
        return fresh_labels(rng, rng.randint(0, 2))
    r = rng.random()
    same_kind = V.gen_labels(rng, rng.randint(1, 4), "str" if isinstance(labs[0], str) else ("float" if isinstance(labs[0], float) else "int"))
    if r < 0.3:
        k = rng.randint(0, len(labs))
        return rng.sample(labs, k)
    if r < 0.6:
        extra = [x for x in same_kind if x not in labs]
        res = list(labs) + extra
        rng.shuffle(res)
        return res
    if r < 0.8:
        return same_kind
    res = list(labs)
    rng.shuffle(res)
    return res


@defop("reindex_axis", "reindex", prop16="keep", axis_keep=True, weight=1.5)
def _reindex_axis():
    def gen(w, rng):
        a_id = pick_arr(w, rng, lambda a: a.ndim > 0)
        if a_id is None:
            return None
        a = w.arr(a_id)
        nm, ref = pick_dim(w, rng, a)
        labs = plain_labels(a.axes[nm])
        if labs is None:
            return None
        new = _gen_new_labels(rng, labs)
        st = {"a": a_id, "axis": ref, "values": new, "out": out(w), "as_axis": rng.random() < 0.2, "name": nm}
        r = rng.random()
        if r < 0.15:
            st["fill_value"] = -99
        elif r < 0.25:
            st["method"] = rng.choice(["left", "right"])
        elif r < 0.32:
            st["raise_error"] = True
        return st

    def run(w, s):
        from dimarray import Axis
        a = w.arr(s["a"])
        kw = {k: s[k] for k in ("fill_value", "method", "raise_error") if k in s}
        vals = V.label_array(s["values"])
        if s["as_axis"]:
            return a.reindex_axis(Axis(vals, s["name"]), **kw)
        return a.reindex_axis(vals, axis=s["axis"], **kw)
    return gen, run


@defop("reindex_like", "reindex", prop16="keep", axis_keep=True, weight=0.8)
def _reindex_like():
    def gen(w, rng):
        a_id, b_id = pick_arr(w, rng), pick_arr(w, rng)
        if a_id == b_id:
            return None
        return {"a": a_id, "b": b_id, "out": out(w)}

    def run(w, s):
        return w.arr(s["a"]).reindex_like(w.arr(s["b"]))
    return gen, run


@defop("sort_axis", "reindex", prop16="keep", axis_keep=True, weight=1.2)
def _sort_axis():
    def gen(w, rng):
        a_id = pick_arr(w, rng, lambda a: a.ndim > 0)
        if a_id is None:
            return None
        a = w.arr(a_id)
        nm, ref = pick_dim(w, rng, a)
        st = {"a": a_id, "axis": ref, "out": out(w)}
        if rng.random() < 0.2:
            st["key"] = "neg"
        if rng.random() < 0.2:
            st["kind"] = "mergesort"
        return st

    def run(w, s):
        a = w.arr(s["a"])
        kw = {}
        if s.get("key"):
            kw["key"] = _negkey
        if s.get("kind"):
            kw["kind"] = s["kind"]
        return a.sort_axis(axis=s["axis"], **kw)
    return gen, run


def _negkey(x):
    return -x if not isinstance(x, str) else x


@defop("interp_axis", "reindex", prop16="keep", weight=1.0)
def _interp_axis():
    def gen(w, rng):
        def ok(a):
            return a.ndim > 0 and a.dtype.kind in "fib"       # (boolean data interpolates in one dimension)
        a_id = pick_arr(w, rng, ok)
        if a_id is None:
            return None
        a = w.arr(a_id)
        cands = [i for i, ax in enumerate(list.__iter__(a._axes)) if plain_labels(ax)
                 and all(isinstance(x, (int, float)) and not isinstance(x, bool) for x in plain_labels(ax))]
        if not cands:
            return None
        i = rng.choice(cands)
        labs = plain_labels(a.axes[i])
        lo, hi = min(labs), max(labs)
        new = sorted(set(rng.choice([lo - 1, lo, lo + 0.25, (lo + hi) / 2.0, hi - 0.25, hi, hi + 1]) for _ in range(rng.randint(1, 3))))
        st = {"a": a_id, "axis": a.dims[i] if rng.random() < 0.6 else i, "values": new, "out": out(w)}
        if rng.random() < 0.2:
            st["left"], st["right"] = -3.0, 44.0
        return st

    def run(w, s):
        kw = {k: s[k] for k in ("left", "right") if k in s}
        return w.arr(s["a"]).interp_axis(s["values"], axis=s["axis"], **kw)
    return gen, run


@defop("interp_like", "reindex", prop16="keep", weight=0.4)
def _interp_like():
    def gen(w, rng):
        a_id, b_id = pick_arr(w, rng, lambda a: a.dtype.kind in "fi"), pick_arr(w, rng)
        if a_id is None or a_id == b_id:
            return None
        return {"a": a_id, "b": b_id, "out": out(w)}

    def run(w, s):
        return w.arr(s["a"]).interp_like(w.arr(s["b"]))
    return gen, run


@defop("dropna", "missing", prop16="keep", weight=1.0)
def _dropna():
    def gen(w, rng):
        a_id = pick_arr(w, rng, lambda a: a.ndim > 0 and a.dtype.kind == "f")
        if a_id is None:
            return None
        a = w.arr(a_id)
        st = {"a": a_id, "axis": pick_dim(w, rng, a)[1], "out": out(w)}
        if rng.random() < 0.3:
            st["minvalid"] = rng.randint(0, 2)
        return st

    def run(w, s):
        kw = {"minvalid": s["minvalid"]} if "minvalid" in s else {}
        return w.arr(s["a"]).dropna(axis=s["axis"], **kw)
    return gen, run


@defop("fillna", "missing", weight=0.8)
def _fillna():
    def gen(w, rng):
        a_id = pick_arr(w, rng, lambda a: a.dtype.kind in "fi")
        if a_id is None:
            return None
        st = {"a": a_id, "fn": rng.choice(["fillna", "setna"]), "value": rng.choice([-9, 0, 3, 2.5]), "out": out(w)}
        if st["fn"] == "setna" and rng.random() < 0.5:
            # the documented sequence / boolean forms: a.setna([v1, v2]), a.setna(a > t), a.setna([a > t, v]), a.setna([v, a > t])
            st["form"] = rng.choice(["values", "mask", "mask_first", "mask_last"])
            st["thr"] = rng.choice([0, 2, 5])
        return st

    def run(w, s):
        a = w.arr(s["a"])
        form = s.get("form")
        if not form:
            return getattr(a, s["fn"])(s["value"])
        if form == "values":
            return a.setna([s["value"], s["thr"]])
        mask = a > s["thr"]
        before = V.snap(mask)
        arg = mask if form == "mask" else ([mask, s["value"]] if form == "mask_first" else [s["value"], mask])
        try:
            return a.setna(arg)
        finally:
            if "C15" in w.props and V.snap(mask) != before:
                raise Violation("C15", "operand_changed", "a.setna(%s) changed the boolean array it was given: %s" % (
                    form, V.describe_snap_diff(before, V.snap(mask))))
    return gen, run


# ---------------------------------------------------------------------------------- multi-array functions

@defop("align", "join", prop16="keep", axis_keep=True, weight=1.5)
def _align():
    def gen(w, rng):
        ids = w.arrays()
        if len(ids) < 2:
            return None
        k = rng.randint(2, min(3, len(ids)))
        sel = rng.sample(ids, k)
        st = {"a": sel[0], "b": sel[1], "others": sel[2:], "join": rng.choice(["outer", "outer", "inner"]),
              "sort": rng.random() < 0.4, "out": out(w), "out2": out(w)}
        if rng.random() < 0.25:
            a = w.arr(sel[0])
            if a.ndim:
                st["axis"] = rng.choice(a.dims)
        if rng.random() < 0.1:
            st["strict"] = True
        return st

    def run(w, s):
        arrs = [w.arr(i) for i in [s["a"], s["b"]] + s.get("others", [])]
        kw = {k: s[k] for k in ("axis", "strict") if k in s}
        return keeps_list(w, "align", arrs, lambda: w.da.align(arrs, join=s["join"], sort=s["sort"], **kw))
    return gen, run


REGISTRY["align"].sources16 = lambda w, s: [s["a"], s["b"]] + s.get("others", [])


@defop("broadcast_arrays", "join", prop16="keep", weight=0.5)
def _broadcast_arrays():
    def gen(w, rng):
        ids = w.arrays()
        if len(ids) < 2:
            return None
        a, b = rng.sample(ids, 2)
        st = {"a": a, "b": b, "out": out(w), "out2": out(w)}
        if len(ids) >= 3 and rng.random() < 0.4:
            st["others"] = [rng.choice([i for i in ids if i not in (a, b)])]
        return st

    def run(w, s):
        return w.da.broadcast_arrays(*[w.arr(i) for i in [s["a"], s["b"]] + s.get("others", [])])
    return gen, run


REGISTRY["broadcast_arrays"].sources16 = lambda w, s: [s["a"], s["b"]] + s.get("others", [])


@defop("stack", "join", prop16="drop", weight=1.2)
def _stack():
    def gen(w, rng):
        ids = w.arrays()
        if len(ids) < 2:
            return None
        k = rng.randint(1, min(3, len(ids)))
        sel = [rng.choice(ids) for _ in range(k)]
        names = []
        for i in sel:
            names.extend(w_all_dims(w.arr(i)))
        cand = [d for d in NEWDIMS + V.DIM_NAMES if d not in names]
        st = {"a": sel[0], "b": sel[1] if k > 1 else None, "others": sel[2:], "axis": rng.choice(cand + [None]), "out": out(w),
              "align": rng.random() < 0.5}
        if rng.random() < 0.6:
            st["keys"] = V.gen_labels(rng, k)
        if st["align"] and rng.random() < 0.4:
            st["sort"] = True
        if rng.random() < 0.25:
            st["as_dict"] = True
            st["keys"] = V.gen_labels(rng, k, "str")
        return st

    def run(w, s):
        arrs = [w.arr(i) for i in [s["a"], s["b"]] + s.get("others", []) if i]
        kw = {}
        if s.get("sort"):
            kw["sort"] = True
        if s.get("as_dict"):
            data = dict(zip(s["keys"], arrs))
            return w.da.stack(data, axis=s["axis"], keys=list(s["keys"]), align=s["align"], **kw)
        return keeps_list(w, "stack", arrs, lambda: w.da.stack(arrs, axis=s["axis"], keys=s.get("keys"), align=s["align"], **kw))
    return gen, run


@defop("concatenate", "join", prop16="drop", weight=1.2)
def _concatenate():
    def gen(w, rng):
        ids = w.arrays(lambda a: a.ndim > 0)
        if len(ids) < 1:
            return None
        a_id = rng.choice(ids)
        a = w.arr(a_id)
        same = [i for i in ids if w.arr(i).dims == a.dims]
        b_id = rng.choice(same) if rng.random() < 0.8 else rng.choice(ids)
        nm, ref = pick_dim(w, rng, a)
        st = {"a": a_id, "b": b_id, "axis": ref, "align": rng.random() < 0.4, "out": out(w)}
        if st["align"] and rng.random() < 0.4:
            st["sort"] = True
        r = rng.random()
        if r < 0.15:
            st["n"] = 1          # a list of one array is legal
            st["b"] = None
        elif r < 0.3:
            st["n"] = 3
        elif r < 0.5:
            # three distinct chunks: the array, a shifted copy of it, and the array once more shifted, in any order
            st["n"] = 3
            st["b"] = None
            st["chunks"] = rng.sample([0, 1, 2], 3)
        if rng.random() < 0.3:
            st["tuple"] = True
        return st

    def run(w, s):
        kw = {"sort": True} if s.get("sort") else {}
        arrs = [w.arr(s["a"])]
        if s.get("chunks"):
            a = arrs[0]
            labs = plain_labels(a.axes[s["axis"]])
            if not labs:
                raise Skip("labels")
            shifted = lambda k: [(x + "_%d" % k) if isinstance(x, str) else x + 100 * k for x in labs]
            made = [a, a.set_axis(V.label_array(shifted(1)), axis=s["axis"], inplace=False),
                    a.set_axis(V.label_array(shifted(2)), axis=s["axis"], inplace=False)]
            arrs = [made[i] for i in s["chunks"]]
        elif s.get("n", 2) >= 2:
            arrs.append(w.arr(s["b"]))
        if s.get("n", 2) == 3 and not s.get("chunks"):
            arrs.append(w.arr(s["a"]))
        if s.get("tuple"):
            arrs = tuple(arrs)
        return keeps_list(w, "concatenate", arrs, lambda: w.da.concatenate(arrs, axis=s["axis"], align=s["align"], **kw))
    return gen, run


@defop("int_meets_float", "join", weight=0.4)
def _int_meets_float():
    """The array meets a copy of itself whose integer labels are the same numbers as floats (3 and 3.0 are one label)."""
    def gen(w, rng):
        a_id = pick_arr(w, rng, lambda a: a.ndim > 0 and a.dtype.kind in "fi")
        if a_id is None:
            return None
        a = w.arr(a_id)
        ints = [d for d in a.dims if (plain_labels(a.axes[d]) or [None]) and all(isinstance(x, int) for x in (plain_labels(a.axes[d]) or [None]))]
        if not ints:
            return None
        return {"a": a_id, "how": rng.choice(["add", "align", "concat", "concat"]), "axis": rng.choice(list(a.dims)), "out": out(w)}

    def run(w, s):
        a = w.arr(s["a"])
        f = a.copy()
        for d in a.dims:
            labs = plain_labels(a.axes[d])
            if labs and all(isinstance(x, int) for x in labs):
                f.set_axis(np.array(labs, dtype=float), axis=d)
        if s["how"] == "add":
            return a + f
        if s["how"] == "align":
            return w.da.align([a, f])[0]
        labs = plain_labels(f.axes[s["axis"]])
        if not labs:
            raise Skip("labels")
        f.set_axis(V.label_array([(x + "_1") if isinstance(x, str) else x + 100 for x in labs]), axis=s["axis"])
        return w.da.concatenate([a, f], axis=s["axis"])
    return gen, run


# ---------------------------------------------------------------------------------- arithmetic

BINOPS = ["add", "sub", "mul", "truediv", "floordiv", "pow"]
CMPOPS = ["lt", "le", "gt", "ge", "eq", "ne"]


def _apply_bin(name, x, y):
    import operator
    return getattr(operator, name)(x, y)


@defop("binop_scalar", "arith", prop16="drop", weight=1.2)
def _binop_scalar():
    def gen(w, rng):
        a_id = pick_arr(w, rng, lambda a: a.dtype.kind in "fib")
        if a_id is None:
            return None
        return {"a": a_id, "fn": rng.choice(BINOPS[:5]), "value": rng.choice([2, 0.5, -1, 3]), "reflected": rng.random() < 0.3,
                "out": out(w)}

    def run(w, s):
        a = w.arr(s["a"])
        if s["reflected"]:
            return _apply_bin(s["fn"], s["value"], a)
        return _apply_bin(s["fn"], a, s["value"])
    return gen, run


@defop("binop_array", "arith", prop16="drop", weight=2.0)
def _binop_array():
    def gen(w, rng):
        ok = lambda a: a.dtype.kind in "fib"
        a_id, b_id = pick_arr(w, rng, ok), pick_arr(w, rng, ok)
        if a_id is None:
            return None
        return {"a": a_id, "b": b_id, "fn": rng.choice(BINOPS[:4]), "out": out(w)}

    def run(w, s):
        return _apply_bin(s["fn"], w.arr(s["a"]), w.arr(s["b"]))
    return gen, run


@defop("iop", "arith", prop16="drop", weight=0.8)
def _iop():
    """Augmented assignment: without __iadd__ & co. it is `x = x + other`, i.e. the operand object must not change."""
    def gen(w, rng):
        ok = lambda a: a.dtype.kind in "fi"
        a_id = pick_arr(w, rng, ok)
        if a_id is None:
            return None
        st = {"a": a_id, "fn": rng.choice(["add", "sub", "mul"]), "out": out(w)}
        if rng.random() < 0.6:
            st["b"] = pick_arr(w, rng, ok)
        else:
            st["value"] = rng.choice([2, 0.5])
        return st

    def run(w, s):
        x = w.arr(s["a"])
        other = w.arr(s["b"]) if s.get("b") else s["value"]
        if s["fn"] == "add":
            x += other
        elif s["fn"] == "sub":
            x -= other
        else:
            x *= other
        return x
    return gen, run


@defop("binop_nd", "arith", prop16="drop", weight=0.5)
def _binop_nd():
    def gen(w, rng):
        a_id = pick_arr(w, rng, lambda a: a.dtype.kind in "fi")
        if a_id is None:
            return None
        return {"a": a_id, "left": rng.random() < 0.5, "out": out(w)}

    def run(w, s):
        a = w.arr(s["a"])
        nd = np.ones(a.shape)
        return (nd + a) if s["left"] else (a + nd)
    return gen, run


@defop("compare", "arith", prop16="drop", weight=1.0)
def _compare():
    def gen(w, rng):
        a_id = pick_arr(w, rng, lambda a: a.dtype.kind in "fib")
        if a_id is None:
            return None
        st = {"a": a_id, "fn": rng.choice(CMPOPS), "out": out(w)}
        if rng.random() < 0.4:
            st["b"] = pick_arr(w, rng)
        else:
            st["value"] = rng.choice([0, 2, 2.5])
        return st

    def run(w, s):
        a = w.arr(s["a"])
        other = w.arr(s["b"]) if s.get("b") else s["value"]
        return _apply_bin(s["fn"], a, other)
    return gen, run


@defop("unary", "arith", prop16="drop", weight=0.6)
def _unary():
    def gen(w, rng):
        a_id = pick_arr(w, rng, lambda a: a.dtype.kind in "fi")
        if a_id is None:
            return None
        return {"a": a_id, "fn": rng.choice(["neg", "pos", "pos_method"]), "out": out(w)}

    def run(w, s):
        a = w.arr(s["a"])
        if s["fn"] == "neg":
            return -a
        if s["fn"] == "pos":
            return +a
        if s["fn"] == "pos_method":
            return a.__pos__()
        return a.apply(np.abs)       # recorded by older replay files
    return gen, run


@defop("apply", "arith", weight=0.3)
def _apply():
    def gen(w, rng):
        a_id = pick_arr(w, rng, lambda a: a.dtype.kind in "fi")
        if a_id is None:
            return None
        return {"a": a_id, "out": out(w)}

    def run(w, s):
        return w.arr(s["a"]).apply(np.abs)
    return gen, run


# ---------------------------------------------------------------------------------- copies, serialisation

@defop("copy", "copy", fresh=True, weight=1.5)
def _copy_op():
    def gen(w, rng):
        a_id = pick_arr(w, rng)
        return {"a": a_id, "out": out(w)}

    def run(w, s):
        r = w.arr(s["a"]).copy()
        if not hasattr(w, "copy_of"):
            w.copy_of = {}
        if s.get("out"):
            w.copy_of[s["out"]] = s["a"]
        return r
    return gen, run


@defop("json_roundtrip", "copy", fresh=True, weight=0.5)
def _json():
    def gen(w, rng):
        a_id = pick_arr(w, rng)
        return {"a": a_id, "out": out(w)}

    def run(w, s):
        from dimarray import DimArray
        return DimArray.from_json(w.arr(s["a"]).to_json())
    return gen, run


@defop("put_copy", "assign", weight=1.0)
def _put_copy():
    def gen(w, rng):
        a_id = pick_arr(w, rng, lambda a: a.dtype.kind in "fi")
        if a_id is None:
            return None
        a = w.arr(a_id)
        idx, _ = _gen_index_tuple(w, rng, a, True)
        st = {"a": a_id, "idx": idx, "value": rng.choice([7, -5, 0.5]), "cast": rng.random() < 0.5, "out": out(w)}
        if a.ndim >= 1 and rng.random() < 0.25:
            # a whole-array index with a block that must be broadcast along the leading dimensions
            st["idx"] = [] if rng.random() < 0.5 else [{"k": "all"}]
            st["value"] = {"row": rng.choice([7, 0.5])}
        return st

    def run(w, s):
        a = w.arr(s["a"])
        idx = tuple(dec_index(e) for e in s["idx"])
        value = s["value"]
        if isinstance(value, dict):
            value = np.arange(a.shape[-1]) * 1.0 + value["row"] if isinstance(value["row"], float) else np.arange(a.shape[-1]) + value["row"]
        return a.put(idx, value, indexing="position", inplace=False, cast=s["cast"])
    return gen, run


@defop("set_axis_copy", "assign", weight=0.6)
def _set_axis_copy():
    def gen(w, rng):
        a_id = pick_arr(w, rng, lambda a: a.ndim > 0)
        if a_id is None:
            return None
        a = w.arr(a_id)
        nm, ref = pick_dim(w, rng, a)
        labs = plain_labels(a.axes[nm])
        if labs is None:
            return None
        st = {"a": a_id, "axis": ref, "values": fresh_labels(rng, len(labs), labs), "out": out(w)}
        free = [n for n in NEWDIMS if n not in a.dims]
        st["on_axis"] = rng.random() < 0.25
        if free and rng.random() < 0.3:
            st["name"] = rng.choice(free)
            if rng.random() < 0.5:
                st["values"] = None
        return st

    def run(w, s):
        kw = {"name": s["name"]} if s.get("name") else {}
        vals = V.label_array(s["values"]) if s.get("values") is not None else None
        a = w.arr(s["a"])
        if s.get("on_axis"):
            # the same request on the Axis object itself: a new Axis comes back, the array keeps its own
            a.axes[s["axis"]].set(vals, inplace=False, **kw)
            return None
        return a.set_axis(vals, axis=s["axis"], inplace=False, **kw)
    return gen, run


@defop("to_list", "copy", weight=0.3)
def _to_list():
    def gen(w, rng):
        a_id = pick_arr(w, rng, lambda a: a.ndim > 0)
        if a_id is None:
            return None
        return {"a": a_id, "out": out(w), "out2": out(w)}

    def run(w, s):
        return list(w.arr(s["a"]))[:2]
    return gen, run


from dsim.worlds import array_ops2  # noqa: E402,F401  (in-place ops, queries, datasets, routing, probes)
