"""C20 steps: on-disk indexing / assignment / unlimited dimensions / multi-file reads versus the in-memory operation."""
import copy as _copy
import os
import numpy as np

from dsim.kernel import Violation
from dsim import values as V
from dsim.worlds.arrays import Skip, dec_index, gen_label_index, gen_pos_index
from dsim.worlds.files import PATHS, VARNAMES, RefFile, gen_dataset_spec, build_dataset, gen_meta, meta_equal
from dsim.worlds import file_ops as F
from dsim.standin.simfs import FS


def _guard(f):
    try:
        return ("ok", f())
    except Violation:
        raise
    except RecursionError:
        return ("raise", RecursionError, "")
    except Exception as e:
        return ("raise", type(e), str(e)[:200])


def indexable_vars(fm):
    out = []
    for k in F.known_vars(fm):
        v = fm.vars[k]
        if all(not fm.dims[d]["unknown"] and fm.dims[d]["labels"] is not None for d in v["dims"]) and not v.get("has_missing"):
            out.append(k)
    return out


LABEL_FORMS = ["loc", "sel", "nloc"]
POS_FORMS = ["iloc", "isel"]


def gen(w, rng):
    existing = [p for p in PATHS if p in w.files and not any(hp == p for (hp, m, h) in w.handles.values())]
    r = rng.random()
    if r < 0.08:
        return _gen_unlim_create(w, rng)
    if r < 0.2:
        st = _gen_unlim_extend(w, rng)
        if st:
            return st
    if r < 0.3:
        return _gen_multi(w, rng)
    if not existing:
        return None
    path = rng.choice(existing)
    fm = w.files[path]
    names = indexable_vars(fm)
    if not names:
        return None
    name = rng.choice(names)
    v = fm.vars[name]
    by = w.cfg["indexing"]
    if r < 0.5:
        # assignment through the handle
        pos = rng.random() < 0.5
        idx = _gen_idx(rng, fm, v, pos, allow_absent=False)
        kind = v["values"].dtype.kind
        if kind == "O":
            value = rng.choice(["p", "zz"])
        else:
            value = rng.choice([7, -5, 2.5, 7.6, -8.7, {"sel": rng.choice([3, 11])}, {"sel_nd": rng.choice([4, 12])}, {"sel_ma": rng.choice([6, 13])}, {"sel_T": rng.choice([20, 40])}])
        return {"op": "disk_assign", "path": path, "name": name, "idx": idx, "pos": pos, "value": value,
                "via": rng.choice(["item", "write"]), "check_other_handle": rng.random() < 0.3,
                "reject_first": rng.random() < 0.2}
    form = rng.choice(["getitem", "getitem", "ix", "loc", "iloc", "sel", "isel", "nloc", "read", "read", "read_nc", "read_nc", "ds_read"])
    if form == "getitem":
        pos = by == "position"
    elif form == "ix":
        pos = by != "position"
    elif form in LABEL_FORMS:
        pos = False
    elif form in POS_FORMS:
        pos = True
    else:
        pos = rng.random() < 0.4
    st = {"op": "disk_index", "path": path, "name": name, "form": form, "pos": pos}
    if form in ("sel", "isel", "ds_read") or (form in ("read", "read_nc") and rng.random() < 0.5):
        if not v["dims"]:
            return None
        dims = rng.sample(v["dims"], rng.randint(1, len(v["dims"])))
        st["sel"] = {d: _gen_one(rng, fm.dims[d]["labels"], pos, False) for d in dims}
    else:
        st["idx"] = _gen_idx(rng, fm, v, pos, allow_absent=False)
    if form == "ds_read":
        st["ds_via"] = rng.choice(["read_names", "read_names", "read_all", "read_nc_all", "sel_all"])
    if form in ("read", "read_nc"):
        if rng.random() < 0.2 and not pos:
            st["tol"] = rng.choice([0.3, 1.0, 5])
            # 0.5 lands exactly half-way between consecutive integer labels: the tie must go the same way on disk and in memory
            st["nudge"] = rng.choice([0.25, 0.25, 0.5, 0.5, -0.5, -0.25])
        if rng.random() < 0.2 and form == "read":
            st["keepdims"] = True
        if "idx" in st and rng.random() < 0.3 and v["dims"]:
            # numpy-like (index, axis) form
            i = rng.randrange(len(v["dims"]))
            st["axis"] = v["dims"][i] if rng.random() < 0.6 else i
            st["idx"] = [st["idx"][i] if i < len(st["idx"]) else {"k": "all"}]
            if st["idx"][0]["k"] == "e":
                st["idx"] = [{"k": "all"}]
    return st


def _gen_one(rng, labs, pos, allow_absent):
    if pos:
        return gen_pos_index(rng, len(labs))
    return gen_label_index(rng, labs, allow_absent=allow_absent)


def _gen_idx(rng, fm, v, pos, allow_absent):
    idx = []
    for d in v["dims"]:
        if rng.random() < 0.3:
            idx.append({"k": "all"})
        else:
            idx.append(_gen_one(rng, fm.dims[d]["labels"], pos, allow_absent))
    if idx and rng.random() < 0.08:
        # the same mask / positions, but held in a DimArray (as the result of `other > 2` would be)
        cand = [i for i, e in enumerate(idx) if e["k"] in ("m", "l") and (e["k"] == "m" or pos) and e["v"]]
        if cand:
            i = rng.choice(cand)
            idx[i] = {"k": "dm", "v": idx[i]["v"], "d": rng.choice(v["dims"])}
    if idx and rng.random() < 0.15:
        cut = rng.randrange(len(idx))
        idx = idx[:cut + 1] if rng.random() < 0.5 else idx[:cut] + [{"k": "e"}]
    return idx


def _decode(idx):
    return tuple(dec_index(e) for e in idx)


def _nudge(x, st):
    """With a tolerance, ask for a neighbour of the label instead of the label itself."""
    if st.get("nudge") and isinstance(x, (int, float)) and not isinstance(x, bool):
        n = st["nudge"]
        return x + (0.25 if n is True else n)     # True: replay files written before the offset became a drawn value
    return x


# ------------------------------------------------------------------------------- disk_index

def _compare_result(w, got, exp, what):
    da = w.da
    if isinstance(exp, da.DimArray) or isinstance(got, da.DimArray):
        if not isinstance(exp, da.DimArray):
            exp = da.DimArray(np.asarray(exp))
        if not isinstance(got, da.DimArray):
            got = da.DimArray(np.asarray(got))
        if got.ndim == 0 and exp.ndim == 0:
            if not V.same_scalar(got.values[()], exp.values[()]):
                raise Violation("C20", "disk_index", "%s: %r on disk, %r in memory" % (what, got.values[()], exp.values[()]))
            return
        d = V.diff_arrays(got, exp, rtol=0, attrs=False, dtype="none", kind=False)
        if d:
            raise Violation("C20", "disk_index", "%s: on disk vs in memory: %s" % (what, d))
        gk, ek = got.values.dtype.kind, exp.values.dtype.kind
        if {"U": "O"}.get(gk, gk) != ek and got.size:
            raise Violation("C20", "disk_index", "%s: dtype kind %s on disk, %s in memory" % (what, gk, ek))
        if not meta_equal(dict(got.attrs), dict(exp.attrs)):
            raise Violation("C20", "disk_index", "%s: metadata %r on disk, %r in memory" % (what, dict(got.attrs), dict(exp.attrs)))
        return
    if not V.same_scalar(got, exp):
        raise Violation("C20", "disk_index", "%s: %r on disk, %r in memory" % (what, got, exp))


def x_disk_index(w, s):
    path, name, form, pos = s["path"], s["name"], s["form"], s["pos"]
    fm = w.files.get(path)
    if fm is None or name not in fm.vars or fm.vars[name]["unknown"] or name not in indexable_vars(fm):
        raise Skip("var")
    if any(hp == path for (hp, m, h) in w.handles.values()):
        raise Skip("busy")
    arr = fm.array(name)
    indexing = "position" if pos else "label"
    kw = {}
    if "tol" in s:
        kw["tol"] = s["tol"]
    if s.get("keepdims"):
        kw["keepdims"] = True
    if "sel" in s:
        sel = {d: dec_index(e) for d, e in s["sel"].items()}
        if any(d not in arr.dims for d in sel):
            raise Skip("dims")
        if s.get("nudge"):
            sel = {d: _nudge(v, s) for d, v in sel.items()}
        index = dict(sel)
    else:
        index = _decode(s["idx"])
        if s.get("nudge"):
            index = tuple(_nudge(v, s) for v in index)
        if "axis" in s:
            index = index[0] if index else slice(None)
            kw["axis"] = s["axis"]
        elif len(index) == 1 and s["idx"][0]["k"] != "e" and form == "getitem":
            index = index[0]
    # in memory
    if form == "getitem":
        mem = lambda: arr[index]
        disk = lambda h: h[name][index]
    elif form in ("ix", "loc", "iloc", "nloc"):
        mem = lambda: getattr(arr, form)[index]
        disk = lambda h: getattr(h[name], form)[index]
    elif form in ("sel", "isel"):
        mem = lambda: getattr(arr, form)(**index)
        disk = lambda h: getattr(h[name], form)(**index)
    elif form == "read":
        mem = lambda: arr.take(index, indexing=indexing, **kw)
        disk = lambda h: h[name].read(index, indexing=indexing, **kw)
    elif form == "read_nc":
        mem = lambda: arr.take(index, indexing=indexing, **kw)
        disk = None
    else:  # ds_read: Dataset-level read with indices, compared variable by variable
        names = [k for k in indexable_vars(fm)]
        mem = lambda: {k: (fm.array(k).take({d: i for d, i in index.items() if d in fm.vars[k]["dims"]}, indexing=indexing)
                           if any(d in fm.vars[k]["dims"] for d in index) else fm.array(k)) for k in names}
        disk = None
        if any(fm.dims[d]["unknown"] or fm.dims[d]["labels"] is None for d in fm.dims) or any(v_["unknown"] for v_ in fm.vars.values()):
            raise Skip("partially unknown file")
    exp = _guard(mem)
    if exp[0] == "raise":
        w.count("c20:index_unasserted_memory_raises")
        return "unasserted:" + exp[1].__name__
    what = "%s %s[%s] (%s)" % (form, name, ", ".join("%s=%r" % kv for kv in sorted(s.items()) if kv[0] in ("idx", "sel", "axis", "tol", "keepdims")), indexing)
    if form == "read_nc":
        got = _guard(lambda: w.da.read_nc(path, name, indices=index, indexing=indexing, **kw))
    elif form == "ds_read":
        via = s.get("ds_via", "read_names")
        if via != "read_names" and sorted(names) != sorted(fm.vars):
            via = "read_names"      # reading "everything" is compared only when everything in the file is known

        def run():
            if via == "read_nc_all":
                return w.da.read_nc(path, indices=dict(index), indexing=indexing)
            with w.da.open_nc(path) as h:
                if via == "read_all":
                    return h.read(indices=dict(index), indexing=indexing)
                if via == "sel_all":
                    return (h.isel if pos else h.sel)(**dict(index))
                return h.read(names, indices=dict(index), indexing=indexing)
        w.count("c20:ds_read_" + via)
        got = _guard(run)
    else:
        def run():
            with w.da.open_nc(path) as h:
                return disk(h)
        got = _guard(run)
    F.finalize_leaks(w)
    w.n_disk += 1
    w.count("c20:index_%s_%s" % (form, indexing))
    if "C20" not in w.props:
        return got[0]
    if got[0] == "raise":
        raise Violation("C20", "disk_index_raises", "%s raises %s (%s) on disk but succeeds in memory" % (what, got[1].__name__, got[2]))
    if form == "ds_read":
        ds = got[1]
        if sorted(ds.keys()) != sorted(exp[1].keys()):
            raise Violation("C20", "disk_index", "%s: variables %r, expected %r" % (what, sorted(ds.keys()), sorted(exp[1])))
        for k in exp[1]:
            _compare_result(w, ds[k], exp[1][k], what + " variable " + k)
    else:
        _compare_result(w, got[1], exp[1], what)
    return "ok"


# ------------------------------------------------------------------------------- disk_assign

def x_disk_assign(w, s):
    path, name, pos = s["path"], s["name"], s["pos"]
    fm = w.files.get(path)
    if fm is None or name not in indexable_vars(fm):
        raise Skip("var")
    if any(hp == path for (hp, m, h) in w.handles.values()):
        raise Skip("busy")
    indexing = "position" if pos else "label"
    by = w.cfg["indexing"]
    arr = fm.array(name)
    index = _decode(s["idx"])
    value = s["value"]
    if isinstance(value, dict):
        sel = _guard(lambda: arr.take(index, indexing=indexing))
        if sel[0] == "raise":
            return "unasserted:" + sel[1].__name__
        const = value.get("sel", value.get("sel_nd", value.get("sel_ma", value.get("sel_T"))))
        if isinstance(sel[1], w.da.DimArray):
            val = sel[1].copy()
            val.values[...] = const
            val.attrs.clear()
            if "sel_T" in value:
                # a DimArray whose dimensions come in another order than the selection: assigned by position, on disk as in memory
                if val.ndim < 2:
                    return "unasserted:rank"
                val.values[...] = (np.arange(val.size) + const).reshape(val.shape)
                val = val.transpose(*list(reversed(val.dims)))
                w.count("c20:assign_transposed_dimarray")
            if "sel_nd" in value:
                val = np.array(val.values, copy=True)
            elif "sel_ma" in value:
                # a masked array: what is stored is its data, on disk as in memory
                data = np.array(val.values, copy=True)
                mask = np.zeros(data.shape, dtype=bool)
                if mask.size:
                    mask.flat[0] = True
                val = np.ma.MaskedArray(data, mask=mask)
                w.count("c20:assign_masked_array")
        else:
            val = const
    else:
        val = value
    memval = np.array(val.values, copy=True) if isinstance(val, w.da.DimArray) else (val.copy() if isinstance(val, np.ma.MaskedArray) else val)
    if isinstance(value, dict) and "sel_T" in value and isinstance(val, w.da.DimArray):
        memval = val.copy()      # the labelled array itself on both sides
    g = _guard(lambda: arr.put(index, memval, indexing=indexing, inplace=True))
    if g[0] == "raise":
        w.count("c20:assign_unasserted_memory_raises")
        return "unasserted:" + g[1].__name__
    if arr.values.dtype != fm.vars[name]["values"].dtype:
        return "unasserted:cast"
    what = "assign %s[%r] = %r (%s)" % (name, s["idx"], value, indexing)

    def run():
        h = w.da.open_nc(path, mode="a")
        try:
            target = h[name]
            if s.get("reject_first") and arr.ndim and not any(fm.dims[d]["unlimited"] for d in fm.vars[name]["dims"]):
                # a refused assignment through the same variable handle first (caught by the caller): it must leave
                # neither data nor state behind
                bad = np.zeros(tuple(n + 2 for n in arr.shape))
                try:
                    target[()] = bad
                    refused[0] = False
                except Exception:
                    refused[0] = True
            if s["via"] == "write":
                target.write(index, val, indexing=indexing)
            elif (indexing == by):
                target[index] = val
            else:
                target.ix[index] = val
            first = target.read() if refused[0] is not None else h[name].read()
            if s.get("check_other_handle"):
                with w.da.open_nc(path) as h2:      # a second, read-only handle while the writer is still open
                    other[0] = h2[name].read()
            return first
        finally:
            h.close()
    other = [None]
    refused = [None]
    got = _guard(run)
    if refused[0] is not None:
        w.count("c20:assign_after_refused_one" if refused[0] else "c20:oversized_assignment_was_accepted")
    F.finalize_leaks(w)
    w.n_disk += 1
    w.count("c20:assign_%s_%s" % (indexing, "dimarray" if isinstance(val, w.da.DimArray) else ("ndarray" if isinstance(val, np.ndarray) else "scalar")))
    if got[0] == "raise":
        F.absorb_unknown(w, path)
        fm.vars[name]["unknown"] = True
        if "C20" in w.props:
            raise Violation("C20", "disk_assign_raises", "%s raises %s (%s) on disk but succeeds in memory" % (what, got[1].__name__, got[2]))
        return "raise"
    fm.vars[name]["values"] = np.array(arr.values, copy=True)
    if "C20" in w.props:
        exp = fm.array(name)
        d = V.diff_arrays(got[1], exp, rtol=0, attrs=False, dtype="kind", kind=False)
        if d:
            raise Violation("C20", "disk_assign", "%s then read through the same handle: %s" % (what, d))
        if other[0] is not None:
            d = V.diff_arrays(other[0], exp, rtol=0, attrs=False, dtype="kind", kind=False)
            w.count("c20:assign_seen_through_second_handle")
            if d:
                raise Violation("C20", "disk_assign", "%s then read through a second handle: %s" % (what, d))
        after = _guard(lambda: w.da.read_nc(path, name))
        F.finalize_leaks(w)
        if after[0] == "raise":
            raise Violation("C20", "disk_assign", "%s: read_nc after closing raises %s" % (what, after[1].__name__))
        d = V.diff_arrays(after[1], exp, rtol=0, attrs=False, dtype="kind", kind=False)
        if d:
            raise Violation("C20", "disk_assign", "%s then read_nc after close: %s" % (what, d))
    return "ok"


# ------------------------------------------------------------------------------- unlimited dimensions

def _gen_unlim_create(w, rng):
    path = rng.choice(PATHS)
    if any(hp == path for (hp, m, h) in w.handles.values()):
        return None
    kinds = w.cfg["label_kinds"]
    n = rng.randint(1, 4)
    labels = V.gen_labels(rng, n, rng.choice(kinds), "inc")
    nv = rng.randint(1, 2)
    vs = []
    for nm in rng.sample(VARNAMES, nv):
        dt = rng.choice(["f8", "i8" if w.cfg["format"] == "NETCDF4" else "i4", "f8"])
        vs.append({"name": nm, "dtype": dt, "values": V.gen_values(rng, [n], dt, 0.0)})
    st = {"op": "unlim_create", "path": path, "dim": "t", "labels": labels, "vars": vs,
          "how": rng.choice(["append_none", "append_none", "append_str"])}
    if rng.random() < 0.5:
        st["axattrs"] = V.gen_attrs(rng, 0.8, False, ["units", "axis_note"]) or {"units": "days"}
    return st


def x_unlim_create(w, s):
    from dimarray import DimArray
    path = s["path"]
    if any(hp == path for (hp, m, h) in w.handles.values()):
        raise Skip("busy")
    dim = s["dim"]
    fmt = w.cfg["format"]

    def run():
        h = w.da.open_nc(path, "w", format=fmt)
        try:
            h.axes.append(dim, None)
            for vs in s["vars"]:
                a = DimArray(np.array(vs["values"], dtype=V.NP_DTYPE[vs["dtype"]]), axes=[(dim, V.label_array(s["labels"]))])
                a.axes[0].attrs.update(V._deepcopy_json(s.get("axattrs", {})))     # metadata of the axis that fills the unlimited dimension
                h[vs["name"]] = a
        finally:
            h.close()
    g = _guard(run)
    F.finalize_leaks(w)
    fm = w.files[path] = RefFile(fmt)
    if g[0] == "raise":
        F.absorb_unknown(w, path)
        for d in fm.dims.values():
            d["unknown"] = True
        if "C20" in w.props:
            raise Violation("C20", "unlimited", "creating and filling an unlimited dimension raises %s: %s" % (g[1].__name__, g[2]))
        return "raise"
    fm.dims[dim] = {"labels": list(s["labels"]), "attrs": V._deepcopy_json(s.get("axattrs", {})), "unlimited": True, "unknown": False}
    for vs in s["vars"]:
        fm.vars[vs["name"]] = {"dims": [dim], "values": np.array(vs["values"], dtype=V.NP_DTYPE[vs["dtype"]]), "attrs": {}, "unknown": False}
    w.n_writes += 1
    w.n_disk += 1
    w.count("c20:unlimited_created")
    if "C20" in w.props or "C19" in w.props:
        F.verify_file(w, path, "unlimited", _p(w), "after filling an unlimited dimension")
    return "ok"


def _p(w):
    return "C20" if "C20" in w.props else "C19"


def _gen_unlim_extend(w, rng):
    cands = []
    for p in PATHS:
        fm = w.files.get(p)
        if fm is None or any(hp == p for (hp, m, h) in w.handles.values()):
            continue
        for d, dv in fm.dims.items():
            if dv["unlimited"] and not dv["unknown"] and dv["labels"] is not None:
                users = [k for k in F.known_vars(fm) if fm.vars[k]["dims"] == [d]]
                if users:
                    cands.append((p, d, users))
    if not cands:
        return None
    p, d, users = rng.choice(cands)
    fm = w.files[p]
    labs = fm.dims[d]["labels"]
    n = len(labs)
    how = rng.choice(["scalar", "scalar", "slice", "list", "inside"])
    k = 1 if how == "scalar" else rng.randint(1, 2)
    kind = "str" if labs and isinstance(labs[0], str) else ("float" if labs and isinstance(labs[0], float) else "int")
    pool = {"int": list(range(20, 40)), "float": [x + 0.5 for x in range(20, 40)], "str": ["k%d" % i for i in range(20)]}[kind]
    new = [x for x in pool if x not in labs][:k]
    name = rng.choice(users)
    dt = fm.vars[name]["values"].dtype
    vals = [rng.randint(50, 99) for _ in range(k)]
    st = {"op": "unlim_extend", "path": p, "dim": d, "name": name, "how": how, "labels": new, "values": vals}
    if how == "inside":
        if n == 0:
            return None
        st["at"] = rng.randrange(n)
        st["labels"] = new[:1]
        st["values"] = vals[:1]
    return st


def x_unlim_extend(w, s):
    from dimarray import DimArray
    path, dim, name, how = s["path"], s["dim"], s["name"], s["how"]
    fm = w.files.get(path)
    if fm is None or dim not in fm.dims or not fm.dims[dim]["unlimited"] or fm.dims[dim]["unknown"] or name not in fm.vars \
            or fm.vars[name]["unknown"] or fm.vars[name]["dims"] != [dim]:
        raise Skip("stale")
    if any(hp == path for (hp, m, h) in w.handles.values()):
        raise Skip("busy")
    labs = list(fm.dims[dim]["labels"])
    n = len(labs)
    new, vals = list(s["labels"]), list(s["values"])
    if any(x in labs for x in new):
        raise Skip("dup")
    k = len(new)
    if how == "scalar":
        index, positions = n, [n]
    elif how == "slice":
        index, positions = slice(n, n + k), list(range(n, n + k))
    elif how == "list":
        index, positions = list(range(n, n + k)), list(range(n, n + k))
    else:
        if s["at"] >= n:
            raise Skip("stale")
        index, positions = s["at"], [s["at"]]
    dt = fm.vars[name]["values"].dtype
    val = DimArray(np.array(vals, dtype=dt), axes=[(dim, V.label_array(new))])

    def run():
        h = w.da.open_nc(path, mode="a")
        try:
            kept = h[name]                 # a variable handle obtained before the append and used again after it
            if labs and s.get("label_reads", True):
                h[name].loc[labs[0]]       # a label look-up through this handle before the dimension grows
                kept.loc[labs[0]]
            h[name].iloc[index] = val      # .ix would mean labels when indexing.by is 'position'
            if s.get("label_reads", True):
                for hv, which in ((h[name], "the writing handle"), (kept, "a variable handle obtained before the append")):
                    seen = hv.loc[new[-1]]     # ... and the freshly written label must be found through the same file handle
                    if not V.same_scalar(seen, vals[-1]):
                        raise AssertionError("label look-up of the new label %r through %s gives %r, written %r" % (new[-1], which, seen, vals[-1]))
            return h[name].read()
        finally:
            h.close()
    g = _guard(run)
    F.finalize_leaks(w)
    w.n_disk += 1
    w.count("c20:unlimited_extend_" + how)
    if g[0] == "raise":
        F.absorb_unknown(w, path)
        fm.dims[dim]["unknown"] = True
        for v in fm.vars.values():
            if dim in v["dims"]:
                v["unknown"] = True
        if "C20" in w.props:
            raise Violation("C20", "unlimited", "writing at %r of unlimited dimension %s (length %d) raises %s: %s" % (index, dim, n, g[1].__name__, g[2]))
        return "raise"
    # model: labels at the written positions are the supplied ones; other variables on the dimension get missing cells
    for p_, l_ in zip(positions, new):
        if p_ < len(labs):
            labs[p_] = l_
        else:
            labs.append(l_)
    grew = len(labs) - n
    fm.dims[dim]["labels"] = labs
    for k_, v in fm.vars.items():
        if v["unknown"] or dim not in v["dims"]:
            continue
        if grew:
            if k_ == name:
                v["values"] = np.concatenate([v["values"], np.zeros(grew, dtype=v["values"].dtype)])
            else:
                pad = np.full(grew, np.nan)
                v.setdefault("orig_dtype", v["values"].dtype)
                v["values"] = np.concatenate([v["values"].astype(float), pad])
                v["has_missing"] = True
        if k_ == name:
            for p_, x in zip(positions, vals):
                v["values"][p_] = x
            if v.get("has_missing") and v["values"].dtype.kind == "f" and not np.isnan(v["values"]).any():
                v["values"] = v["values"].astype(v.get("orig_dtype", v["values"].dtype))   # every missing cell has been written
                v["has_missing"] = False
    if "C20" in w.props:
        got = g[1]
        gl = V.labels_list(got.axes[0].values)
        if not F._same_labels(gl, labs):
            raise Violation("C20", "unlimited", "after writing labels %r at %r of unlimited dimension %s: axis labels %r, expected %r" % (new, index, dim, gl, labs))
        if not V._close(got.values, fm.vars[name]["values"], 0):
            raise Violation("C20", "unlimited", "after writing %r at %r of unlimited dimension %s: values %r, expected %r" % (
                vals, index, dim, got.values.tolist(), fm.vars[name]["values"].tolist()))
        F.verify_file(w, path, "unlimited", "C20", "after extending an unlimited dimension")
    return "ok"


# ------------------------------------------------------------------------------- multi-file reads

def _gen_multi(w, rng):
    free = [p for p in PATHS if not any(hp == p for (hp, m, h) in w.handles.values())]
    if len(free) < 2:
        return None
    n = rng.randint(2, min(3, len(free)))
    paths = rng.sample(free, n)     # an explicit list is read in the order given, sorted or not
    cfg = dict(w.cfg, max_rank=2)
    base = gen_dataset_spec(rng, cfg, nvars=rng.randint(1, 2))
    if not base["dims"]:
        return None
    d0 = rng.choice(list(base["dims"]))
    mode = rng.choice(["stack", "stack", "concat"])
    specs = [base]
    for i in range(1, n):
        sp = _copy.deepcopy(base)
        if rng.random() < 0.5 and len(set(tuple(vs["dims"]) for vs in sp["vars"])) == 1:
            rng.shuffle(sp["vars"])        # the same variables, created in another order (the order of the file's dimensions stays)
        for vs in sp["vars"]:
            shape = [len(sp["dims"][d]) for d in vs["dims"]]
            vs["values"] = V.gen_values(rng, shape, vs["dtype"], cfg["nan_rate"])
        if mode == "concat":
            labs = sp["dims"][d0]
            sp["dims"][d0] = [(x + "_%d" % i) if isinstance(x, str) else x + 100 * i for x in labs]
        specs.append(sp)
    differing = False
    if rng.random() < 0.4:
        # a secondary axis differs in one file: needs align=True
        sec = [d for d in base["dims"] if d != d0 or mode == "stack"]
        if sec:
            d1 = rng.choice(sec)
            sp = specs[rng.randint(1, len(specs) - 1)]     # the last file, or one in the middle
            labs = sp["dims"][d1]
            if len(labs) >= 2:
                keep = labs[:-1]
                sp["dims"][d1] = keep
                for vs in sp["vars"]:
                    if d1 in vs["dims"]:
                        shape = [len(sp["dims"][d]) for d in vs["dims"]]
                        vs["values"] = V.gen_values(rng, shape, vs["dtype"], cfg["nan_rate"])
                differing = True
    indices = None
    if rng.random() < 0.3:
        # label indices handed through to every file; the indexed dimension sits in another order in the last file
        cand = [d for d in base["dims"] if (d != d0 or mode == "stack") and len(base["dims"][d]) >= 2]
        if cand:
            d2 = rng.choice(cand)
            common = [x for x in specs[0]["dims"][d2] if all(x in sp["dims"][d2] for sp in specs)]
            if common:
                specs[-1]["dims"][d2] = list(reversed(specs[-1]["dims"][d2]))
                pick = rng.sample(common, rng.randint(1, min(2, len(common))))
                indices = {d2: pick[0] if len(pick) == 1 and rng.random() < 0.7 else pick}
    st = {"op": "multi_read", "paths": paths, "specs": specs, "mode": mode, "align": differing or rng.random() < 0.2,
          "sort": rng.random() < 0.3}
    if indices:
        st["indices"] = indices
    if st["align"] and rng.random() < 0.3:
        st["join"] = "inner"        # documented: passed on to the alignment
    names = [vs["name"] for vs in base["vars"]]
    r = rng.random()
    st["names"] = None if r < 0.4 else (rng.choice(names) if r < 0.7 else names)
    if mode == "stack":
        st["axis"] = rng.choice(["model", "run"])
        if rng.random() < 0.5:
            st["keys"] = V.gen_labels(rng, n, rng.choice(["int", "str"]))
    else:
        if any(d0 not in vs["dims"] for vs in base["vars"]):
            return None
        st["axis"] = d0
        if rng.random() < 0.4:
            allabs = []
            for sp in specs:
                allabs.extend(sp["dims"][d0])
            if len(set(map(repr, allabs))) == len(allabs) and allabs:
                ks = rng.sample(allabs, rng.randint(1, len(allabs)))   # the joined axis is re-indexed on the keys
                st["keys"] = ks
    return st


def x_multi_read(w, s):
    paths = s["paths"]
    if any(hp in paths for (hp, m, h) in w.handles.values()):
        raise Skip("busy")
    for p, sp in zip(paths, s["specs"]):
        sub = {"op": "ds_write", "path": p, "mode": "w", "spec": sp}
        props = w.props
        w.props = set()          # plain set-up writes: their round trip is C19's business
        try:
            F.x_ds_write(w, sub)
        finally:
            w.props = props
    kw = {"axis": s["axis"], "align": s["align"]}
    if s.get("sort"):
        kw["sort"] = True
    if "keys" in s:
        kw["keys"] = list(s["keys"])
    if s.get("join"):
        kw["join"] = s["join"]
    names = s["names"]
    da = w.da
    ikw = {"indices": dict(s["indices"])} if s.get("indices") else {}
    if ikw:
        kw["indices"] = dict(s["indices"])
        w.count("c20:multi_with_indices")

    def expected():
        singles = [da.read_nc(p, **ikw) for p in paths]
        if isinstance(names, list):
            singles = [da.Dataset({k: ds[k] for k in names}) for ds in singles]
        elif isinstance(names, str):
            singles = [da.Dataset({names: ds[names]}) for ds in singles]
        akw = {"sort": True} if s.get("sort") else {}
        if s.get("join"):
            akw["join"] = s["join"]
        if s["mode"] == "stack":
            keys = list(s["keys"]) if "keys" in s else [os.path.splitext(p)[0] for p in paths]
            out = da.stack_ds(singles, axis=s["axis"], keys=keys, align=s["align"], **akw)
        else:
            out = da.concatenate_ds(singles, axis=s["axis"], align=s["align"], **akw)
            if "keys" in s:
                out = out.reindex_axis(list(s["keys"]), axis=s["axis"])
        return out[names] if isinstance(names, str) else out
    exp = _guard(expected)
    F.finalize_leaks(w)
    if exp[0] == "raise":
        w.count("c20:multi_unasserted_reference_raises")
        return "unasserted:" + exp[1].__name__
    given = list(paths)
    got = _guard(lambda: da.read_nc(given, names, **kw))
    F.finalize_leaks(w)
    if given != list(paths) and "C20" in w.props:
        raise Violation("C20", "multi_read", "read_nc reordered the caller's list of files: %r -> %r" % (list(paths), given))
    w.n_disk += 1
    w.count("c20:multi_%s%s" % (s["mode"], "_align" if s["align"] else ""))
    if "C20" not in w.props:
        return got[0]
    what = "read_nc(%r, %r, %s)" % (paths, names, ", ".join("%s=%r" % kv for kv in sorted(kw.items())))
    if got[0] == "raise":
        raise Violation("C20", "multi_read", "%s raises %s (%s) while reading each file and joining succeeds" % (what, got[1].__name__, got[2]))
    d = V.diff_any(got[1], exp[1], rtol=0)
    if d:
        raise Violation("C20", "multi_read", "%s differs from joining the single-file reads: %s" % (what, d))
    return "ok"


STEPS = {"disk_index": x_disk_index, "disk_assign": x_disk_assign, "unlim_create": x_unlim_create,
         "unlim_extend": x_unlim_extend, "multi_read": x_multi_read}
