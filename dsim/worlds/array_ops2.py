"""ArrayWorld alphabet, part 2: in-place steps, cache-populating queries, Dataset steps,
attribute routing (C16) and twin probes (C05)."""
import copy as _copy
import numpy as np

from dsim.kernel import Violation
from dsim import values as V
from dsim.worlds.arrays import (Skip, dec_index, plain_labels, ax_len, gen_label_index, gen_pos_index,
                                fresh_labels, absent_label)
from dsim.worlds.array_ops import (REGISTRY, Op, defop, pick_arr, pick_dim, out, _gen_index_tuple, w_all_dims,
                                   NEWDIMS)


# ---------------------------------------------------------------------------------- in-place: values

@defop("setitem", "assign", kind="inplace", weight=1.5)
def _setitem():
    def gen(w, rng):
        a_id = pick_arr(w, rng, lambda a: a.dtype.kind in "fib")
        if a_id is None:
            return None
        a = w.arr(a_id)
        pos = rng.random() < 0.5
        idx, _ = _gen_index_tuple(w, rng, a, pos)
        if idx is None:
            return None
        return {"a": a_id, "idx": idx, "pos": pos, "value": rng.choice([7, -5, 0.5, float("nan")]),
                "via": rng.choice(["[]", "put"])}

    def run(w, s):
        a = w.arr(s["a"])
        idx = tuple(dec_index(e) for e in s["idx"])
        if s["via"] == "put":
            a.put(idx, s["value"], indexing="position" if s["pos"] else "label", inplace=True)
        elif s["pos"]:
            a.ix[idx] = s["value"]
        else:
            a[idx] = s["value"]
        return None
    return gen, run


@defop("set_axis_kw", "meta", kind="inplace", weight=0.5)
def _set_axis_kw():
    """set_axis(axis=d, name_=value): extra keywords are documented to be set on the axis like attributes."""
    def gen(w, rng):
        a_id = pick_arr(w, rng, lambda a: a.ndim > 0)
        if a_id is None:
            return None
        a = w.arr(a_id)
        nm, ref = pick_dim(w, rng, a)
        name, value = rng.choice([["tol", 0.5], ["tol", 2], ["long_name", "lbl"], ["units", "m"], ["axis_note", 7]])
        return {"a": a_id, "axis": ref, "dim": nm, "name": name, "value": value, "via": rng.choice(["array", "axis"])}

    def run(w, s):
        from dimarray.core.axes import MultiAxis
        a = w.arr(s["a"])
        ax = a.axes[s["axis"]]
        if isinstance(ax, MultiAxis):
            raise Skip("grouped axis")
        before = dict(ax.attrs)
        if s["via"] == "array":
            a.set_axis(axis=s["axis"], **{s["name"]: s["value"]})
        else:
            ax.set(**{s["name"]: s["value"]})
        ax = a.axes[s["axis"]]
        if "C16" in w.props:
            if s["name"] == "tol":
                if V.attrs_key(ax.attrs) != V.attrs_key(before) or ax.tol != s["value"]:
                    raise Violation("C16", "route_set", "set_axis(tol=%r): a class member must be set, not stored as metadata: tol=%r attrs %r" % (
                        s["value"], ax.tol, dict(ax.attrs)))
            else:
                want = dict(before)
                want[s["name"]] = s["value"]
                if V.attrs_key(ax.attrs) != V.attrs_key(want):
                    raise Violation("C16", "route_set", "set_axis(%s=%r): axis metadata %r, expected %r" % (s["name"], s["value"], dict(ax.attrs), want))
            w.count("c16:set_axis_kwargs_routed")
        return None
    return gen, run


@defop("fill_inplace", "assign", kind="inplace", weight=0.5)
def _fill_inplace():
    def gen(w, rng):
        a_id = pick_arr(w, rng, lambda a: a.dtype.kind == "f")
        if a_id is None:
            return None
        return {"a": a_id, "fn": rng.choice(["fillna", "setna", "fill"]), "value": rng.choice([-9.0, 0.0, 3.0, 2.5])}

    def run(w, s):
        a = w.arr(s["a"])
        if s["fn"] == "fill":
            r = a.values.fill(s["value"])        # ndarray.fill on the values the array hands out
        else:
            r = getattr(a, s["fn"])(s["value"], inplace=True)
        if r is not None and "C15" in w.props:
            raise Violation("C15", "operand_changed", "%s(inplace=True) returned %s instead of working in place" % (s["fn"], type(r).__name__))
        return None
    return gen, run


@defop("setitem_array", "assign", kind="inplace", weight=0.6)
def _setitem_array():
    def gen(w, rng):
        a_id = pick_arr(w, rng, lambda a: a.dtype.kind in "f" and a.ndim > 0)
        b_id = pick_arr(w, rng)
        if a_id is None or a_id == b_id:
            return None
        return {"a": a_id, "b": b_id, "merge_b": True}

    def run(w, s):
        a, b = w.arr(s["a"]), w.arr(s["b"])
        a[()] = b
        return None
    return gen, run


@defop("values_set", "assign", kind="inplace", weight=0.8)
def _values_set():
    def gen(w, rng):
        a_id = pick_arr(w, rng)
        a = w.arr(a_id)
        r = rng.random()
        if r < 0.3:
            return {"a": a_id, "how": "fill", "value": rng.choice([0, 1.5, -2])}
        if r < 0.5 and a.dtype.kind == "f":
            return {"a": a_id, "how": "fillna", "value": rng.choice([0, -9.0])}
        dt = rng.choice(["f8", "i8"])
        if a.ndim == 0 and rng.random() < 0.5:
            # non-scalar data for a 0-d array: must be refused (or at least leave a well-formed array)
            return {"a": a_id, "how": "values_bcast", "new": rng.choice([[1.0, 2.0], [[3]], 4.5])}
        if a.ndim and rng.random() < 0.35:
            # a right-hand side that relies on broadcasting: a scalar or a single row, possibly of another kind
            if rng.random() < 0.5:
                return {"a": a_id, "how": "values_bcast", "new": rng.choice([3, 2.5, float("nan"), "s"])}
            return {"a": a_id, "how": "values_bcast", "new": V.gen_values(rng, [a.shape[-1]], dt, 0.2)}
        return {"a": a_id, "how": "values", "dtype": dt, "new": V.gen_values(rng, list(a.shape), dt, 0.1)}

    def run(w, s):
        a = w.arr(s["a"])
        if s["how"] == "fill":
            a.fill(s["value"])
        elif s["how"] == "fillna":
            a.fillna(s["value"], inplace=True)
        elif s["how"] == "values_bcast":
            a.values = s["new"]
        else:
            new = np.array(s["new"], dtype=V.NP_DTYPE[s["dtype"]]).reshape(a.shape)
            a.values = new
        return None
    return gen, run


# ---------------------------------------------------------------------------------- in-place: rename / relabel

def _free_names(w, axis_objs, extra=()):
    taken = set(extra)
    for ax in axis_objs:
        taken.update(w.names_near(ax))
    for n in list(taken):
        taken.update(n.split(","))
    return [d for d in V.DIM_NAMES + NEWDIMS if d not in taken]


def free_tail(w, axis_objs):
    return _free_names(w, axis_objs)


@defop("rename", "rename", kind="inplace", weight=1.5)
def _rename():
    def gen(w, rng):
        a_id = pick_arr(w, rng, lambda a: a.ndim > 0)
        if a_id is None:
            return None
        a = w.arr(a_id)
        how = rng.choice(["axname", "set_axis", "dims", "dims_dict"])
        if how in ("axname", "set_axis", "dims_dict"):
            nm, ref = pick_dim(w, rng, a)
            free = _free_names(w, [a.axes[nm]])
            if not free:
                return None
            if rng.random() < 0.06:
                return {"a": a_id, "how": how, "axis": ref, "old": nm, "new": rng.choice(["", 7])}    # must be refused
            return {"a": a_id, "how": how, "axis": ref, "old": nm, "new": rng.choice(free)}
        own = list(list.__iter__(a._axes))
        if a.ndim >= 2 and rng.random() < 0.3 and all("," not in d for d in a.dims) and all(w.n_holders(ax) == 1 for ax in own):
            # the current names in another order (a swap or a cyclic shift): every name stays in use but moves to another axis, so
            # anything remembered per name is stale; only for arrays that share no axis, so that no alias ends up with equal names
            new = list(a.dims)
            k = rng.randrange(1, len(new))
            new = new[k:] + new[:k]
            if rng.random() < 0.5 and free_tail(w, own):
                new[rng.randrange(len(new))] = rng.choice(free_tail(w, own))     # a shift: one old name goes, a fresh one comes
            return {"a": a_id, "how": "dims", "new": new}
        free = _free_names(w, own)
        new = []
        for d in a.dims:
            if rng.random() < 0.5 and free:
                n = rng.choice(free)
                free.remove(n)
                new.append(n)
            else:
                new.append(d)
        return {"a": a_id, "how": "dims", "new": new}

    def run(w, s):
        a = w.arr(s["a"])
        how = s["how"]
        if how == "axname":
            a.axes[s["axis"]].name = s["new"]
        elif how == "set_axis":
            a.set_axis(name=s["new"], axis=s["axis"])
        elif how == "dims_dict":
            a.dims = {s["old"]: s["new"]}
        else:
            if len(s["new"]) != a.ndim:
                raise Skip("rank")
            a.dims = tuple(s["new"])
        return None
    return gen, run


def _unique_new_label(rng, labs, same_kind=0.8):
    pool = {"int": V.INT_LABELS + [20, 21, 22], "float": V.FLOAT_LABELS + [20.5, 21.5], "str": V.STR_LABELS + ["w", "zq"]}
    kind = "str" if labs and isinstance(labs[0], str) else ("float" if labs and isinstance(labs[0], float) else "int")
    if rng.random() > same_kind:
        kind = rng.choice(["int", "float", "str"])
    cand = [x for x in pool[kind] if x not in labs]
    return rng.choice(cand) if cand else None


@defop("relabel", "relabel", kind="inplace", weight=2.0)
def _relabel():
    def gen(w, rng):
        a_id = pick_arr(w, rng, lambda a: a.ndim > 0)
        if a_id is None:
            return None
        a = w.arr(a_id)
        how = rng.choice(["item", "item", "axvalues", "labels", "attr", "set_axis_list", "set_axis_dict", "set_axis_fn",
                          "axes_setitem", "axes_assign", "item_mask"] + (["values_buffer"] if "C05" not in w.props else []))
        if how in ("labels", "axes_assign"):
            new = []
            for ax in list.__iter__(a._axes):
                labs = plain_labels(ax)
                if labs is None:
                    return None
                new.append(fresh_labels(rng, len(labs), labs))
                if len(new[-1]) != len(labs):
                    return None
            st = {"a": a_id, "how": how, "new": new}
            if new and rng.random() < 0.15:
                # a deliberately ill-fitting request: must be refused (or at least leave a well-formed array)
                k = rng.randrange(len(new))
                if rng.random() < 0.3:
                    # the wrong number of axes: one too few, or one too many
                    st["illfit"] = "count"
                    if rng.random() < 0.5:
                        new.pop()
                    else:
                        new.append(list(new[k]))
                else:
                    st["illfit"] = "length"
                    new[k] = new[k] + [absent_label(rng, new[k])] if rng.random() < 0.5 or len(new[k]) < 2 else new[k][:-1]
            return st
        nm, ref = pick_dim(w, rng, a)
        labs = plain_labels(a.axes[nm])
        if labs == [] and how in ("axvalues", "attr", "set_axis_list", "axes_setitem"):
            # labels for an axis that has none: must be refused (or at least leave a well-formed array)
            return {"a": a_id, "how": how, "axis": ref, "dim": nm, "new": [rng.choice([5, 2.5, "b"])], "illfit": "length"}
        if labs is None or not labs:
            return None
        st = {"a": a_id, "how": how, "axis": ref, "dim": nm}
        if how in ("item", "item_mask", "values_buffer"):
            lab = _unique_new_label(rng, labs)
            if lab is None:
                return None
            st["i"] = rng.randrange(len(labs))
            st["lab"] = lab
        elif how == "set_axis_dict":
            lab = _unique_new_label(rng, labs, 1.0)
            if lab is None:
                return None
            st["map"] = [[rng.choice(labs), lab]]
        elif how == "set_axis_fn":
            if isinstance(labs[0], str):
                return None
            st["add"] = rng.choice([100, 0.5, -50])
        else:
            st["new"] = fresh_labels(rng, len(labs), labs if rng.random() < 0.7 else None)
            if len(st["new"]) != len(labs):
                return None
            if rng.random() < 0.1:
                # the wrong number of labels through any route: must be refused (or at least leave a well-formed array)
                st["illfit"] = "length"
                st["new"] = st["new"] + [absent_label(rng, st["new"])] if rng.random() < 0.5 or len(st["new"]) < 2 else st["new"][:-1]
        return st

    def run(w, s):
        from dimarray import Axis
        a = w.arr(s["a"])
        how = s["how"]
        if s.get("illfit"):
            w.count("c05:illfit_relabel_" + s["illfit"])
        if how in ("labels", "axes_assign"):
            if s.get("illfit") == "count":
                if len(s["new"]) not in (a.ndim - 1, a.ndim + 1):
                    raise Skip("rank")
            elif len(s["new"]) != a.ndim:
                raise Skip("rank")
            names = list(a.dims) + ["w9"]
        if how == "labels":
            a.labels = tuple(V.label_array(l) for l in s["new"])
            return None
        if how == "axes_assign":
            if len(s["new"]) % 2:
                a.axes = [Axis(V.label_array(l), d) for l, d in zip(s["new"], names)]
            else:
                a.axes = [(d, V.label_array(l)) for l, d in zip(s["new"], names)]
            return None
        ax = a.axes[s["axis"]]
        if how in ("item", "item_mask", "values_buffer"):
            cur = plain_labels(ax)
            if cur is None or s["lab"] in cur or s["i"] >= len(cur):
                raise Skip("dup")
            if how == "item":
                ax[s["i"]] = s["lab"]
            elif how == "item_mask":
                mask = np.zeros(len(cur), dtype=bool)
                mask[s["i"]] = True
                ax[mask] = s["lab"]
            else:
                # a write straight into the label buffer the axis hands out (not done in C05 runs: it bypasses the
                # axis, so a cached monotonicity flag is legitimately left behind)
                if isinstance(s["lab"], str) != isinstance(cur[0], str) or (isinstance(s["lab"], float) and ax.values.dtype.kind == "i"):
                    raise Skip("kind")
                ax.values[s["i"]] = s["lab"]
        elif how == "axvalues":
            ax.values = V.label_array(s["new"])
        elif how == "attr":
            if s["dim"] not in a.dims:
                raise Skip("dim")
            setattr(a, s["dim"], V.label_array(s["new"]))
        elif how == "set_axis_list":
            a.set_axis(s["new"], axis=s["axis"])
        elif how == "set_axis_dict":
            m = {k: v for k, v in s["map"]}
            labs = plain_labels(ax) or []
            if any(v in labs for v in m.values()):
                raise Skip("dup")
            a.set_axis(m, axis=s["axis"])
        elif how == "set_axis_fn":
            add = s["add"]
            a.set_axis(lambda x: x + add, axis=s["axis"])
        elif how == "axes_setitem":
            a.axes[s["axis"]] = Axis(V.label_array(s["new"]), ax.name)
        return None
    return gen, run


# ---------------------------------------------------------------------------------- in-place: metadata

META_NAMES = ["units", "long_name", "scale", "tag", "note"]


@defop("meta_write", "meta", kind="inplace", weight=1.5)
def _meta_write():
    def gen(w, rng):
        a_id = pick_arr(w, rng)
        a = w.arr(a_id)
        how = rng.choice(["attr", "dict", "del", "axattr", "mutate", "axmutate", "attr", "dict", "axattr", "npnested"])
        st = {"a": a_id, "how": how, "name": rng.choice(META_NAMES),
              "value": V.gen_attr_value(rng, w.cfg.get("mutable_meta", True))}
        if how in ("axattr", "axmutate"):
            if a.ndim == 0:
                return None
            st["axis"] = pick_dim(w, rng, a)[1]
        if how == "dict" and rng.random() < 0.1:
            st["member_key"] = rng.choice(["dims", "labels"])
        return st

    def run(w, s):
        a = w.arr(s["a"])
        how, nm = s["how"], s["name"]
        val = V._deepcopy_json(s["value"])
        if how == "attr":
            if nm in a.dims or hasattr(type(a), nm):
                raise Skip("name")
            setattr(a, nm, val)
        elif how == "dict" and s.get("member_key") and a.ndim:
            # a metadata entry named like a writable property of the class, holding something that property would accept
            if s["member_key"] == "dims":
                a.attrs["dims"] = [("m%d" % i) for i in range(a.ndim)]
            else:
                a.attrs["labels"] = [list(range(100, 100 + n)) for n in a.shape]
            w.count("c15:meta_key_named_like_property")
        elif how == "dict":
            a.attrs[nm] = val
        elif how == "dict" and False:
            pass
        elif how == "npnested":
            # NumPy objects inside a mutable metadata value
            a.attrs[nm] = {"k": np.float32(1.5), "l": np.array([1, 2])} if len(nm) % 2 else [np.int64(3), np.array([0.5, 2.0])]
            w.count("c15:meta_numpy_nested")
        elif how == "del":
            if nm not in a.attrs:
                raise Skip("absent")
            del a.attrs[nm]
        elif how == "axattr":
            a.axes[s["axis"]].attrs[nm] = val
        elif how in ("mutate", "axmutate"):
            d = a.attrs if how == "mutate" else a.axes[s["axis"]].attrs
            for k in sorted(d.keys(), key=str):
                v = d[k]
                if isinstance(v, list):
                    v.append(99)
                    w.count("c15:meta_mutated_inplace")
                    return None
                if isinstance(v, dict):
                    v["extra"] = 99
                    w.count("c15:meta_mutated_inplace")
                    return None
            raise Skip("nothing mutable")
        return None
    return gen, run


# ---------------------------------------------------------------------------------- queries (populate caches)

@defop("query", "query", kind="query", weight=2.0)
def _query():
    def gen(w, rng):
        a_id = pick_arr(w, rng)
        a = w.arr(a_id)
        what = rng.choice(["labels", "mono", "repr", "axvalues", "misc", "loc", "str"])
        st = {"a": a_id, "what": what}
        if what in ("mono", "axvalues", "loc"):
            if a.ndim == 0:
                return None
            nm, ref = pick_dim(w, rng, a)
            st["axis"] = ref
            if what == "loc":
                labs = plain_labels(a.axes[nm])
                if not labs:
                    return None
                st["lab"] = rng.choice(labs)
        return st

    def run(w, s):
        a = w.arr(s["a"])
        what = s["what"]
        if what == "labels":
            return [np.array(l, copy=True) for l in a.labels]
        if what == "mono":
            return bool(a.axes[s["axis"]].is_monotonic())
        if what == "repr":
            return len(repr(a)) > 0
        if what == "str":
            return len(str(a)) > 0
        if what == "axvalues":
            ax = a.axes[s["axis"]]
            return [np.array(ax.values, copy=True), int(ax.size), str(ax.dtype)]
        if what == "loc":
            return int(a.axes[s["axis"]].loc(s["lab"]))
        return [list(a.dims), list(a.shape), int(a.ndim), int(a.size), str(a.dtype)]
    return gen, run


# ---------------------------------------------------------------------------------- datasets inside ArrayWorld

KEYS = ["v0", "v1", "v2", "foo", "history"]     # two keys are also names used as metadata in the routing steps


@defop("ds_make", "dataset", weight=1.0)
def _ds_make():
    def gen(w, rng):
        ids = w.arrays()
        k = rng.randint(1, min(2, len(ids)))
        sel = rng.sample(ids, k)
        names = rng.sample(KEYS, k)
        st = {"a": sel[0], "keys": names, "out": out(w), "form": rng.choice(["kw", "dict", "empty+set"])}
        if k > 1:
            st["b"] = sel[1]
        return st

    def run(w, s):
        from dimarray import Dataset
        arrs = [w.arr(s["a"])] + ([w.arr(s["b"])] if s.get("b") else [])
        data = dict(zip(s["keys"], arrs))
        if s["form"] == "kw":
            return Dataset(**data)
        if s["form"] == "dict":
            return Dataset(data)
        ds = Dataset()
        for k in s["keys"]:
            ds[k] = data[k]
        return ds
    return gen, run


@defop("ds_setitem", "dataset", kind="inplace", weight=1.0)
def _ds_setitem():
    def gen(w, rng):
        dss = w.datasets()
        if not dss:
            return None
        return {"a": rng.choice(dss), "b": pick_arr(w, rng), "key": rng.choice(KEYS), "merge_b": True}

    def run(w, s):
        ds, b = w.dset(s["a"]), w.arr(s["b"])
        before = V.snap(b)
        try:
            ds[s["key"]] = b
        finally:
            if "C15" in w.props and V.snap(b) != before:
                raise Violation("C15", "operand_changed", "ds[%r] = b changed b: %s" % (
                    s["key"], V.describe_snap_diff(before, V.snap(b))))
        return None
    return gen, run


@defop("ds_inplace", "dataset", kind="inplace", weight=1.2)
def _ds_inplace():
    def gen(w, rng):
        dss = w.datasets()
        if not dss:
            return None
        d_id = rng.choice(dss)
        ds = w.dset(d_id)
        if not ds.dims:
            return None
        i = rng.randrange(len(ds.dims))
        labs = plain_labels(ds.axes[i])
        if not labs:
            return None
        what = rng.choice(["item", "set_axis", "rename", "del", "axes_setitem"])
        st = {"a": d_id, "what": what, "axis": ds.dims[i] if rng.random() < 0.6 else i, "dim": ds.dims[i]}
        if what == "item":
            lab = _unique_new_label(rng, labs)
            if lab is None:
                return None
            st["i"], st["lab"] = rng.randrange(len(labs)), lab
        elif what in ("set_axis", "axes_setitem"):
            st["new"] = fresh_labels(rng, len(labs), labs)
            if len(st["new"]) != len(labs):
                return None
        elif what == "rename":
            free = _free_names(w, [ds.axes[i]], extra=ds.dims)
            if not free:
                return None
            st["new"] = rng.choice(free)
        else:
            keys = list(dict.keys(ds))
            if not keys:
                return None
            st["key"] = rng.choice(keys)
        return st

    def run(w, s):
        from dimarray import Axis
        ds = w.dset(s["a"])
        what = s["what"]
        if what == "del":
            if s["key"] not in dict.keys(ds):
                raise Skip("key")
            del ds[s["key"]]
            return None
        if s["dim"] not in ds.dims:
            raise Skip("dim")
        ax = ds.axes[s["axis"]]
        if what == "item":
            if s["lab"] in (plain_labels(ax) or [s["lab"]]):
                raise Skip("dup")
            ax[s["i"]] = s["lab"]
        elif what == "set_axis":
            ds.set_axis(V.label_array(s["new"]), axis=s["axis"])
        elif what == "axes_setitem":
            ds.axes[s["axis"]] = Axis(V.label_array(s["new"]), ax.name)
        else:
            if s["new"] in ds.dims:
                raise Skip("name")
            ds.axes[s["axis"]].name = s["new"]
        return None
    return gen, run


@defop("ds_getitem", "dataset", weight=1.0)
def _ds_getitem():
    def gen(w, rng):
        dss = w.datasets()
        if not dss:
            return None
        d_id = rng.choice(dss)
        ds = w.dset(d_id)
        keys = list(dict.keys(ds))
        names = keys + list(ds.dims)
        if not names:
            return None
        return {"a": d_id, "key": rng.choice(names), "out": out(w)}

    def run(w, s):
        ds = w.dset(s["a"])
        return ds[s["key"]]
    return gen, run


@defop("ds_pure", "dataset", weight=1.5)
def _ds_pure():
    def gen(w, rng):
        dss = w.datasets()
        if not dss:
            return None
        d_id = rng.choice(dss)
        ds = w.dset(d_id)
        what = rng.choice(["copy", "mean", "take", "add", "neg", "sort_axis", "reindex_axis", "to_array", "repr",
                           "rename_keys_copy", "rename_axes_copy", "set_axis_copy", "take_axis", "ds_op_ds"])
        st = {"a": d_id, "what": what, "out": out(w)}
        if what in ("mean", "take", "sort_axis", "reindex_axis", "set_axis_copy", "take_axis", "rename_axes_copy"):
            if not ds.dims:
                return None
            i = rng.randrange(len(ds.dims))
            st["axis"] = ds.dims[i] if rng.random() < 0.6 else i
            labs = plain_labels(ds.axes[i])
            if labs is None:
                return None
            if what == "take":
                if not labs:
                    return None
                st["idx"] = gen_label_index(rng, labs)
            if what == "reindex_axis":
                from dsim.worlds.array_ops import _gen_new_labels
                st["values"] = _gen_new_labels(rng, labs)
            if what == "set_axis_copy":
                st["values"] = fresh_labels(rng, len(labs), labs)
            if what == "take_axis":
                st["ind"] = [rng.randrange(len(labs)) for _ in range(rng.randint(1, 3))] if labs else []
            if what == "rename_axes_copy":
                free = [d for d in NEWDIMS if d not in ds.dims]
                if not free:
                    return None
                st["new"] = rng.choice(free)
                st["old"] = ds.dims[i]
        if what == "ds_op_ds":
            st["b"] = rng.choice(dss)
        return st

    def run(w, s):
        ds = w.dset(s["a"])
        what = s["what"]
        if what == "copy":
            return ds.copy()
        if what == "mean":
            return ds.mean(axis=s["axis"])
        if what == "take":
            return ds.take(indices=dec_index(s["idx"]), axis=s["axis"])
        if what == "add":
            return ds + 1
        if what == "neg":
            return -ds
        if what == "sort_axis":
            return ds.sort_axis(axis=s["axis"])
        if what == "reindex_axis":
            return ds.reindex_axis(V.label_array(s["values"]), axis=s["axis"])
        if what == "to_array":
            return ds.to_array()
        if what == "repr":
            return len(repr(ds))
        if what == "rename_keys_copy":
            return ds.rename_keys(lambda k: k + "_r", inplace=False)
        if what == "rename_axes_copy":
            if s["new"] in ds.dims or s["old"] not in ds.dims:
                raise Skip("name")
            return ds.rename_axes({s["old"]: s["new"]}, inplace=False)
        if what == "set_axis_copy":
            return ds.set_axis(V.label_array(s["values"]), axis=s["axis"], inplace=False)
        if what == "take_axis":
            return ds.take_axis(s["ind"], axis=s["axis"], indexing="position")
        if what == "ds_op_ds":
            return ds + w.dset(s["b"])
        raise Skip(what)
    return gen, run


@defop("to_dataset", "dataset", weight=0.3)
def _to_dataset():
    def gen(w, rng):
        a_id = pick_arr(w, rng, lambda a: a.ndim > 0)
        if a_id is None:
            return None
        a = w.arr(a_id)
        return {"a": a_id, "axis": pick_dim(w, rng, a)[1], "out": out(w)}

    def run(w, s):
        return w.arr(s["a"]).to_dataset(axis=s["axis"])
    return gen, run


# ---------------------------------------------------------------------------------- C16: attribute routing

PUBLIC_NAMES = ["units", "foo", "bar", "time", "x", "y", "z", "t", "shape2", "ndim_", "history"]
UNDER_NAMES = ["_foo", "_bar", "__baz", "_x"]
MEMBER_NAMES = {"DimArray": ["shape", "values", "axes", "dims", "labels", "ndim", "size", "mean", "T", "copy", "take",
                             "dtype", "ix", "sum"],
                "Dataset": ["keys", "values", "items", "axes", "dims", "labels", "copy", "mean", "update", "get"],
                "Axis": ["values", "name", "size", "dtype", "tol", "loc", "copy", "union"],
                "MultiAxis": ["values", "name", "size", "dtype", "tol", "loc", "copy", "axes", "levels"]}
EXTRA_PUBLIC = {"Dataset": ["shape", "ndim", "size"], "Axis": ["shape", "dims", "labels"], "MultiAxis": ["shape", "dims"]}


def classify(obj, name):
    cls = type(obj)
    if name.startswith("_"):
        return "under"
    if hasattr(cls, name) or name in getattr(cls, "__metadata_exclude__", []):
        return "member"
    if hasattr(cls, "dims") and name in obj.dims:
        return "dim"
    return "public"


def _route_target(w, s):
    o = w.get(s["a"])
    if s.get("axis") is not None:
        if isinstance(o, w.da.DimArray) or isinstance(o, w.da.Dataset):
            try:
                return o, o.axes[s["axis"]]
            except Exception:
                raise Skip("axis")
    return o, o


def core_key(obj):
    """Observable state of an object except its own attrs."""
    from dimarray import DimArray, Dataset
    from dimarray.core.axes import Axis
    if isinstance(obj, DimArray):
        return (V.nd_key(obj._values), tuple(V.snap_axis(ax) for ax in list.__iter__(obj._axes)))
    if isinstance(obj, Dataset):
        s = V.snap_dataset(obj)
        return s[:4]
    if isinstance(obj, Axis):
        s = V.snap_axis(obj)
        return s[:-1]
    return None


def _gen_route(w, rng, acts):
    ids = list(w.order)
    if not ids:
        return None
    a_id = rng.choice(ids)
    o = w.get(a_id)
    st = {"a": a_id, "axis": None}
    tgt = o
    dims = list(o.dims)
    if dims and rng.random() < 0.35:
        i = rng.randrange(len(dims))
        st["axis"] = dims[i] if rng.random() < 0.6 else i
        tgt = o.axes[i]
    cname = type(tgt).__name__
    r = rng.random()
    if r < 0.45:
        pool = PUBLIC_NAMES + EXTRA_PUBLIC.get(cname, []) + [k for k in tgt.attrs.keys() if isinstance(k, str)]
    elif r < 0.6:
        pool = UNDER_NAMES
    elif r < 0.8:
        pool = MEMBER_NAMES.get(cname, ["values"])
    else:
        pool = list(tgt.dims if hasattr(type(tgt), "dims") else ()) or PUBLIC_NAMES
        pool = [p for p in pool if "," not in p] or PUBLIC_NAMES
    st["name"] = rng.choice(pool)
    st["act"] = rng.choice(acts)
    return st, tgt


@defop("route_read", "route", kind="query", weight=2.0)
def _route_read():
    def gen(w, rng):
        g = _gen_route(w, rng, ["get", "get", "has"])
        return g[0] if g else None

    def run(w, s):
        owner, obj = _route_target(w, s)
        name, act = s["name"], s["act"]
        cls = classify(obj, name)
        attrs0 = dict(obj.attrs)
        in_inst = name in obj.__dict__
        if "C16" not in w.props:
            try:
                return getattr(obj, name) is not None
            except AttributeError:
                return None
        if act == "has":
            got = hasattr(obj, name)
            if cls == "public":
                exp = name in attrs0
            elif cls == "under":
                exp = in_inst
            else:
                exp = True
            if got != exp:
                raise Violation("C16", "route_get", "hasattr(%s, %r) is %r for a %s name (attrs keys %r)" % (
                    type(obj).__name__, name, got, cls, sorted(map(str, attrs0))))
            w.count("c16:route_has_" + cls)
            return got
        try:
            res = getattr(obj, name)
            raised = None
        except AttributeError as e:
            res, raised = None, e
        if cls == "public":
            if name in attrs0:
                if raised is not None or V.norm(res) != V.norm(attrs0[name]):
                    raise Violation("C16", "route_get", "%s.%s should read attrs[%r]=%r, got %r / %r" % (
                        type(obj).__name__, name, name, attrs0[name], res, raised))
            elif raised is None:
                raise Violation("C16", "route_get", "%s.%s is not in attrs but getattr returned %r" % (
                    type(obj).__name__, name, res))
        elif cls == "dim":
            labs = obj.axes[name].values
            if raised is not None or not isinstance(res, np.ndarray) or V.nd_key(res) != V.nd_key(labs):
                raise Violation("C16", "route_get", "%s.%s should read the axis labels, got %r / %r" % (
                    type(obj).__name__, name, res, raised))
        elif cls == "under":
            if not in_inst and raised is None:
                raise Violation("C16", "route_private", "%s.%s is reachable (%r) although underscore names never map to attrs" % (
                    type(obj).__name__, name, res))
        else:  # class member: an attrs entry under that name must not be what comes back
            if name in attrs0 and isinstance(attrs0[name], str) and attrs0[name].startswith("SENTINEL") \
                    and raised is None and isinstance(res, str) and res == attrs0[name]:
                raise Violation("C16", "route_private", "%s.%s returned the attrs entry stored under a class-member name" % (
                    type(obj).__name__, name))
        w.count("c16:route_get_" + cls + ("_shadowed" if name in attrs0 and cls in ("under", "member", "dim") else ""))
        return raised is None
    return gen, run


def _throwaway(w, s, owner):
    """Deep copy of the owner (and the same target inside it) for steps that would wreck the object."""
    try:
        c = _copy.deepcopy(owner)
    except Exception:
        raise Skip("deepcopy")
    if s.get("axis") is not None:
        try:
            return c, c.axes[s["axis"]]
        except Exception:
            raise Skip("axis")
    return c, c


@defop("route_write", "route", kind="inplace", weight=3.0)
def _route_write():
    def gen(w, rng):
        g = _gen_route(w, rng, ["set", "set", "set", "del", "del", "dictset", "dictset", "dictset", "dictdel",
                                "attrs_assign", "attrs_del"])
        if not g:
            return None
        st, tgt = g
        cls = classify(tgt, st["name"])
        if st["act"] == "dictset" and cls != "public" and not w.plan:
            # follow an entry stored under a reserved name with reads / deletes of that very name
            base = {"a": st["a"], "axis": st["axis"], "name": st["name"]}
            follow = []
            for act in rng.sample(["get", "has", "del", "set", "get"], rng.randint(2, 4)):
                f = dict(base)
                f["act"] = act
                f["op"] = "route_read" if act in ("get", "has") else "route_write"
                if act == "set":
                    f["value"] = "txt"
                    if cls == "dim":
                        continue
                follow.append(f)
            w.plan = [(lambda w_, r_, f=f: f if f["a"] in w_.objs else None) for f in follow]
        if st["act"] == "set" and cls == "dim":
            labs = plain_labels(tgt.axes[st["name"]])
            if not labs:
                return None
            st["value"] = fresh_labels(rng, len(labs), labs)
            if len(st["value"]) != len(labs):
                return None
        elif st["act"] == "dictset" and cls in ("under", "member"):
            st["value"] = "SENTINEL:" + st["name"]
        elif st["act"] == "attrs_assign":
            st["value"] = V.gen_attrs(rng, 1.0, False)
        else:
            st["value"] = rng.choice([V.gen_attr_value(rng, True), None, "txt", 3, {"nd": [1, 2]}])
        return st

    def run(w, s):
        owner, obj = _route_target(w, s)
        name, act = s["name"], s["act"]
        val = V._deepcopy_json(s.get("value"))
        if isinstance(val, dict) and list(val) == ["nd"]:
            val = np.array(val["nd"])
        check = "C16" in w.props
        cls = classify(obj, name)
        tname = type(obj).__name__
        if act in ("dictset", "dictdel", "attrs_assign", "attrs_del"):
            if act == "dictset":
                obj.attrs[name] = val
                if check and obj.attrs.get(name) is not val:
                    raise Violation("C16", "route_set", "attrs[%r] = v is not readable back from attrs" % name)
            elif act == "dictdel":
                if name not in obj.attrs:
                    raise Skip("absent")
                del obj.attrs[name]
            elif act == "attrs_assign":
                core0 = core_key(obj)
                obj.attrs = val
                if check and (V.attrs_key(obj.attrs) != V.attrs_key(val) or core_key(obj) != core0):
                    raise Violation("C16", "route_set", "%s.attrs = %r left attrs %r" % (tname, val, dict(obj.attrs)))
            else:
                core0 = core_key(obj)
                del obj.attrs
                if check and (len(obj.attrs) != 0 or core_key(obj) != core0):
                    raise Violation("C16", "route_del", "del %s.attrs left %r" % (tname, dict(obj.attrs)))
            w.count("c16:route_" + act + "_" + cls)
            return None
        # attribute syntax
        if cls in ("under", "member") or (cls == "dim" and act == "del"):
            if cls == "dim" and name in obj.attrs:
                raise Skip("unspecified: name is both a dimension and an attrs key")
            c_owner, c = _throwaway(w, s, owner)
            a0 = V.attrs_key(c.attrs)
            core0 = core_key(c) if cls == "dim" else None
            raised = None
            try:
                if act == "set":
                    setattr(c, name, val)
                else:
                    delattr(c, name)
            except RecursionError:
                raise
            except Exception as e:
                raised = e
            if check:
                try:
                    a1 = V.attrs_key(c.attrs)
                except Exception as e:
                    a1 = a0 if cls == "member" else ("raises", type(e).__name__)
                if a1 != a0:
                    raise Violation("C16", "route_private", "%s %s.%s (a %s name) changed attrs: %r" % (
                        act, tname, name, cls, V.describe_snap_diff(a0, a1)))
                if act == "del" and cls == "under" and name not in obj.__dict__ and raised is None:
                    raise Violation("C16", "route_private", "del %s.%s succeeded although nothing but an attrs entry can be there" % (
                        tname, name))
                if cls == "dim" and core_key(c) != core0:
                    raise Violation("C16", "route_del", "del %s.%s (a dimension) changed the object" % (tname, name))
            w.count("c16:route_%s_%s%s" % (act, cls, "_shadowed" if name in obj.attrs else ""))
            return None
        attrs0 = dict(obj.attrs)
        akey0 = V.attrs_key(obj.attrs)
        core0 = core_key(obj)
        raised = None
        try:
            if act == "set":
                setattr(obj, name, V.label_array(val) if cls == "dim" else val)
            else:
                delattr(obj, name)
        except AttributeError as e:
            raised = e
        if not check:
            return None
        if cls == "public" and act == "set":
            exp = dict(attrs0)
            exp[name] = val
            if raised is not None or V.attrs_key(obj.attrs) != V.attrs_key(exp) or core_key(obj) != core0:
                raise Violation("C16", "route_set", "%s.%s = %r: attrs %r, expected %r (raised %r)" % (
                    tname, name, val, dict(obj.attrs), exp, raised))
        elif cls == "public" and act == "del":
            if name in attrs0:
                exp = dict(attrs0)
                del exp[name]
                if raised is not None or V.attrs_key(obj.attrs) != V.attrs_key(exp) or core_key(obj) != core0:
                    raise Violation("C16", "route_del", "del %s.%s: attrs %r, expected %r (raised %r)" % (
                        tname, name, dict(obj.attrs), exp, raised))
            else:
                if raised is None or V.attrs_key(obj.attrs) != akey0 or core_key(obj) != core0:
                    raise Violation("C16", "route_del", "del %s.%s (absent) must raise AttributeError and change nothing" % (
                        tname, name))
        elif cls == "dim" and act == "set":
            got = obj.axes[name].values
            want = V.label_array(val)
            if raised is not None or V.attrs_key(obj.attrs) != akey0 or not V._close(got, want, 0):
                raise Violation("C16", "route_set", "%s.%s = %r must relabel the axis and leave attrs alone: labels %r attrs %r" % (
                    tname, name, val, V.labels_list(got), dict(obj.attrs)))
        w.count("c16:route_%s_%s" % (act, cls))
        return None
    return gen, run


# ---------------------------------------------------------------------------------- C05: twin probes

PROBE_OPS = ["getitem", "ix", "take_dict", "take_axis", "reduce", "cumul", "transpose", "newaxis", "squeeze", "flatten",
             "unflatten", "reshape", "reindex_axis", "reindex_like", "sort_axis", "interp_axis", "dropna", "align", "stack",
             "concatenate", "binop_array", "binop_array", "binop_scalar", "compare", "copy", "json_roundtrip", "query", "unary",
             "broadcast", "fillna", "compress_axis"]


def build_twin(x):
    """A fresh array with the same values, labels, dims and metadata, built by the public constructors."""
    from dimarray import DimArray
    axes = [twin_axis(ax) for ax in list.__iter__(x._axes)]
    t = DimArray(np.array(x._values, order="K", copy=True), axes)
    t.attrs.update(_copy.deepcopy(dict(x._attrs)))
    return t


def twin_axis(ax):
    from dimarray.core.axes import Axis, MultiAxis
    if isinstance(ax, MultiAxis):
        members = [twin_axis(m) for m in list.__iter__(ax.axes)]
        t = MultiAxis(*members)
        if ax.name != ",".join(m.name for m in members):
            t.name = ax.name
    else:
        t = Axis(np.array(ax._values, copy=True), ax.name, tol=ax.tol)
    t.attrs.update(_copy.deepcopy(dict(ax._attrs)))
    return t


def _guard(f):
    try:
        return ("ok", f())
    except RecursionError as e:
        return ("raise", RecursionError)
    except Exception as e:
        return ("raise", type(e))


def _cmp_guarded(g1, g2):
    if g1[0] != g2[0]:
        return "laden %s, twin %s" % (_fmt(g1), _fmt(g2))
    if g1[0] == "raise":
        return None if g1[1] is g2[1] else "laden raises %s, twin raises %s" % (g1[1].__name__, g2[1].__name__)
    return V.diff_any(g1[1], g2[1])


def _fmt(g):
    return "raises %s" % g[1].__name__ if g[0] == "raise" else "returns %s" % repr(g[1])[:100].replace("\n", " ")


@defop("probe", "probe", kind="query", weight=1.0)
def _probe():
    def gen(w, rng):
        x_id = pick_arr(w, rng)
        if x_id is None:
            return None
        for _ in range(8):
            nm = rng.choice(PROBE_OPS)
            w.force_a = x_id
            try:
                sub = REGISTRY[nm].gen(w, rng)
            finally:
                w.force_a = None
            if sub is None:
                continue
            ids = [sub.get("a"), sub.get("b")] + sub.get("others", [])
            if x_id not in ids:
                continue
            for k in ("out", "out2", "out3"):
                sub.pop(k, None)
            sub["op"] = nm
            st = {"a": x_id, "sub": sub, "mono": rng.random() < 0.5, "others": [i for i in ids if i and i != x_id]}
            # a few more read-only operations on the same laden/twin pair
            more = []
            for _ in range(rng.randint(0, 2)):
                nm2 = rng.choice(PROBE_OPS)
                w.force_a = x_id
                try:
                    sub2 = REGISTRY[nm2].gen(w, rng)
                except (IndexError, ValueError, KeyError, Skip):
                    sub2 = None
                finally:
                    w.force_a = None
                if sub2 is None:
                    continue
                ids2 = [sub2.get("a"), sub2.get("b")] + sub2.get("others", [])
                if x_id not in ids2:
                    continue
                for k in ("out", "out2", "out3"):
                    sub2.pop(k, None)
                sub2["op"] = nm2
                more.append(sub2)
                st["others"] = st["others"] + [i for i in ids2 if i and i != x_id and i not in st["others"]]
            if more:
                st["more"] = more
            return st
        return None

    def run(w, s):
        from dimarray.core.axes import MultiAxis
        x = w.arr(s["a"])
        sub = s["sub"]
        op = REGISTRY[sub["op"]]
        for i in op.operands(sub):
            if i is not None:
                w.get(i)
        w.n_probe += 1
        if len(set(x.dims)) != len(x.dims):
            w.count("c05:twin_unbuildable")
            return None
        try:
            twin = build_twin(x)
        except Exception:
            w.count("c05:twin_unbuildable")
            return None
        check = "C05" in w.props
        # (a) grouped labels
        for i, ax in enumerate(list.__iter__(x._axes)):
            if isinstance(ax, MultiAxis):
                had_cache = ax.__dict__.get("_values") is not None
                g1 = _guard(lambda: np.array(x.axes[i].values, copy=True))
                g2 = _guard(lambda: np.array(twin.axes[i].values, copy=True))
                d = _cmp_guarded(g1, g2)
                w.count("c05:grouped_checked" + ("_cached" if had_cache else ""))
                if d and check:
                    raise Violation("C05", "grouped_stale", "grouped axis %r reports labels that differ from its members': %s" % (
                        ax.name, d))
                g1 = _guard(lambda: int(x.axes[i].size))
                g2 = _guard(lambda: int(twin.axes[i].size))
                if _cmp_guarded(g1, g2) and check:
                    raise Violation("C05", "grouped_stale", "grouped axis %r size: %s" % (ax.name, _cmp_guarded(g1, g2)))
        # (b) cached monotonicity
        if s.get("mono"):
            for i, ax in enumerate(list.__iter__(x._axes)):
                if isinstance(ax, MultiAxis):
                    continue
                had_cache = ax.__dict__.get("_monotonic") is not None
                g1 = _guard(lambda: bool(x.axes[i].is_monotonic()))
                g2 = _guard(lambda: bool(twin.axes[i].is_monotonic()))
                d = _cmp_guarded(g1, g2)
                w.count("c05:mono_checked" + ("_cached" if had_cache else ""))
                if d and check:
                    raise Violation("C05", "mono_stale", "axis %r is_monotonic(): %s (labels %r)" % (
                        ax.name, d, V.labels_list(ax.values)))
        # (c) read-only operations on both
        for sub in [s["sub"]] + list(s.get("more", [])):
            op = REGISTRY[sub["op"]]
            try:
                for i in op.operands(sub):
                    if i is not None:
                        w.get(i)
            except Skip:
                continue
            r = _probe_one(w, s, x, twin, op, sub, check)
            if r == "stop":
                break
        return None
    return gen, run


def _probe_one(w, s, x, twin, op, sub, check):
        partners = [i for i in op.operands(sub) if i and i != s["a"]]
        if w.too_large([s["a"]] + partners):
            return None
        pb = {i: V.snap(w.get(i)) for i in partners}
        xb = V.snap(x)
        g1 = _guard(lambda: op.run(w, sub))
        if any(V.snap(w.get(i)) != pb[i] for i in partners) or V.snap(x) != xb:
            w.count("c05:probe_skipped_operand_changed")
            return "stop"
        w.override = {s["a"]: twin}
        try:
            g2 = _guard(lambda: op.run(w, sub))
        finally:
            w.override = None
        d = _cmp_guarded(g1, g2)
        w.count("c05:twin_compared:" + sub["op"])
        if d and check:
            raise Violation("C05", "twin_diff", "%s on a history-laden array vs a freshly built twin: %s" % (sub["op"], d))
        return None


REGISTRY["probe"].operands = lambda s: [s.get("a")] + list(s.get("others", []))
