"""C14: Dataset-wide operations versus the per-variable DimArray operation (real code on the model's copies)."""
import copy as _copy
import operator
import numpy as np

from dsim.kernel import Violation
from dsim import values as V
from dsim.worlds.arrays import Skip, dec_index

KEEP_DS_ATTRS = ("take", "index_prop", "take_axis", "sort_axis", "reindex_axis", "interp_axis")


def _guard(f):
    try:
        return ("ok", f())
    except Violation:
        raise
    except RecursionError:
        return ("raise", RecursionError, "")
    except Exception as e:
        return ("raise", type(e), str(e)[:160])


def _perturbed_model(m, shift_dim=None, shift=0, perturb=False, seed=0):
    """A second dataset derived from the model: same variables, labels of one dimension shifted."""
    m2 = m.clone()
    if shift_dim is not None and shift_dim in m2.dims:
        labs = m2.dims[shift_dim]["labels"]
        m2.dims[shift_dim]["labels"] = [(x + "_%d" % shift) if isinstance(x, str) else x + shift for x in labs]
    for v in m2.vars.values():
        if v["values"].dtype.kind in "fi":
            v["values"] = v["values"] + 1
    return m2


def _real_from_model(m):
    from dimarray import Dataset
    ds = Dataset()
    for k in m.vars:
        ds[k] = m.array(k)
    for d in m.unused:
        pass
    ds.attrs.update(_copy.deepcopy(m.attrs))
    return ds


def run_dsop(w, s):
    from dimarray import Dataset
    import dimarray as da
    ds, m = w.ds, w.model
    what = s["what"]
    check = "C14" in w.props
    keys = list(m.vars)
    if not keys:
        raise Skip("empty")
    w.n_ops += 1
    dim = s.get("dim")
    if dim is not None and (dim not in m.dims or dim not in m.used()):
        raise Skip("the operated dimension must be used by at least one variable")
    axis = s.get("axis")
    if isinstance(axis, int) and what != "stack_ds":
        if dim not in ds.dims:
            raise Skip("dim")
        axis = list(ds.dims).index(dim)  # positions refer to the dataset's own order
    before = V.snap_dataset(ds)

    has = lambda k: dim in m.vars[k]["dims"]
    per_var = {}    # key -> callable on a fresh DimArray
    real = None
    others_model = None

    if what == "take":
        idx = dec_index(s["idx"])
        sel = {dim: idx}
        if s.get("dim2") and s["dim2"] in m.dims and s["dim2"] in m.used():   # like dim: used by at least one variable
            sel[s["dim2"]] = dec_index(s["idx2"])
        form = s["form"]
        if form == "tuple":
            # a tuple of indices follows the order of the dataset's own dimensions
            order = list(ds.dims)
            tup = tuple(sel.get(d_, slice(None)) for d_ in order)
            real = lambda: ds.take(indices=tup)
        elif form == "axis":
            real = lambda: ds.take(indices=idx, axis=axis)
        elif form == "axis_pos":
            real = lambda: ds.take(indices=idx, axis=axis, indexing="position")
        elif form == "keepdims_pos":
            real = lambda: ds.take(indices=idx, axis=axis, indexing="position", keepdims=True)
        elif form == "keepdims":
            real = lambda: ds.take(indices=idx, axis=axis, keepdims=True)
        else:
            real = lambda: ds.take(indices=dict(sel))
        kd = form in ("keepdims", "keepdims_pos")
        ikw = {"indexing": "position"} if form.endswith("_pos") else {}
        if form in ("axis", "keepdims", "axis_pos", "keepdims_pos"):
            sel = {dim: idx}
        for k in keys:
            sub = {d: i for d, i in sel.items() if d in m.vars[k]["dims"]}
            per_var[k] = (lambda a, sub=sub: a.take(dict(sub), keepdims=kd, **ikw) if sub else a)
    elif what == "index_prop":
        idx = dec_index(s["idx"])
        prop = s["prop"]
        position = prop in ("ix", "iloc", "isel")
        if prop in ("sel", "isel"):
            real = lambda: getattr(ds, prop)(**{dim: idx})
        else:
            real = lambda: getattr(ds, prop)[{dim: idx}]
        for k in keys:
            per_var[k] = (lambda a, k=k: a.take({dim: idx}, indexing="position" if position else "label") if has(k) else a)
    elif what == "reduce" and s.get("direct"):
        # Dataset.reduce_axis called directly with a NumPy function: what Dataset.mean/sum/... are built on
        fn, keepattrs = s["fn"], bool(s.get("keepattrs"))
        npf = getattr(np, fn)
        real = lambda: ds.reduce_axis(npf, axis=axis, keepattrs=keepattrs)

        def one(a, k):
            if not has(k):
                return a
            r = getattr(a, fn)(axis=dim, skipna=False)
            if not isinstance(r, da.DimArray):
                # a 1-d variable reduces to a bare scalar, which cannot carry metadata: nothing to compare there
                r = da.DimArray(r)
                r.attrs.update(_copy.deepcopy(dict(a.attrs)))
            if not keepattrs:
                r.attrs = {}
            return r
        for k in keys:
            per_var[k] = (lambda a, k=k: one(a, k))
    elif what == "reduce":
        fn, skipna = s["fn"], s["skipna"]
        if "axis" in s and s["axis"] is None:
            real = lambda: getattr(ds, fn)(axis=None, skipna=skipna)
            for k in keys:
                per_var[k] = (lambda a: getattr(a, fn)(axis=None, skipna=skipna))
            dim = None
            has = lambda k: True
        else:
            real = lambda: getattr(ds, fn)(axis=axis, skipna=skipna)
            for k in keys:
                per_var[k] = (lambda a, k=k: getattr(a, fn)(axis=dim, skipna=skipna) if has(k) else a)
    elif what == "take_axis":
        ind, indexing = s["ind"], s["indexing"]
        mkw = {"mode": s["mode"]} if "mode" in s else {}
        if mkw and len(m.dims[dim]["labels"]) == 0:
            raise Skip("numpy.take(mode='wrap') never returns on an empty axis")
        real = lambda: ds.take_axis(ind, axis=axis, indexing=indexing, **mkw)
        for k in keys:
            per_var[k] = (lambda a, k=k: a.take_axis(ind, axis=dim, indexing=indexing, **mkw) if has(k) else a)
    elif what == "sort_axis":
        real = lambda: ds.sort_axis(axis=axis)
        for k in keys:
            per_var[k] = (lambda a, k=k: a.sort_axis(axis=dim) if has(k) else a)
    elif what == "reindex_axis":
        vals = V.label_array(s["values"])
        kw = {k: s[k] for k in ("fill_value", "method") if k in s}
        real = lambda: ds.reindex_axis(vals, axis=axis, **kw)
        for k in keys:
            per_var[k] = (lambda a, k=k: a.reindex_axis(vals, axis=dim, **kw) if has(k) else a)
    elif what == "interp_axis":
        vals = list(s["values"])
        if any(has(k) and m.vars[k]["values"].dtype.kind not in "fi" for k in keys):
            raise Skip("interpolating a non-numeric variable is not asserted")
        real = lambda: ds.interp_axis(vals, axis=axis)
        for k in keys:
            per_var[k] = (lambda a, k=k: a.interp_axis(vals, axis=dim) if has(k) else a)
    elif what == "reindex_like":
        from dimarray import Axis, Axes
        tg = {d: labs for d, labs in s["targets"].items() if d in m.dims and d in m.used()}
        if not tg:
            raise Skip("stale")
        mk = lambda: Axes([Axis(V.label_array(labs), d) for d, labs in tg.items()])
        real = lambda: ds.reindex_like(mk())
        for k in keys:
            per_var[k] = (lambda a: a.reindex_like(mk()))
    elif what == "scalar_op":
        f = getattr(operator, s["fn"])
        val = s["value"]
        real = lambda: f(ds, val)
        for k in keys:
            per_var[k] = (lambda a: f(a, val))
    elif what == "neg":
        if s.get("sign") == "pos":
            real = lambda: +ds
            for k in keys:
                per_var[k] = (lambda a: +a)
        else:
            real = lambda: -ds
            for k in keys:
                per_var[k] = (lambda a: -a)
    elif what == "ds_op_ds" and s.get("other_reduced") and s["other_reduced"]["dim"] in m.used():
        # the other operand is a reduction of this dataset: its variables are the reduced (possibly 0-d) variables
        f = getattr(operator, s["fn"])
        rd, rfn = s["other_reduced"]["dim"], s["other_reduced"]["fn"]
        if any(len(v_["labels"]) == 0 for v_ in m.dims.values()):
            raise Skip("zero-length axes in Dataset-wide arithmetic are not asserted (DESIGN section 8)")
        real = lambda: f(ds, getattr(ds, rfn)(axis=rd))
        for k in keys:
            per_var[k] = (lambda a, k=k: f(a, getattr(a, rfn)(axis=rd)) if rd in m.vars[k]["dims"] else f(a, a))
    elif what == "ds_op_ds":
        f = getattr(operator, s["fn"])
        if m.unused:
            raise Skip("derived datasets do not reproduce appended-but-unused axes")
        m2 = _perturbed_model(m)
        if s.get("drop_key") and len(keys) >= 2:
            del m2.vars[keys[-1]]           # the keys overlap only partly: the result holds the common variables
        if s.get("other_labels"):
            # the second dataset carries another label at one position of one dimension: arithmetic joins outer
            for d_ in m2.used():
                labs_ = m2.dims[d_]["labels"]
                if labs_:
                    new_ = ("zz9" if isinstance(labs_[-1], str) else labs_[-1] + 1000)
                    if new_ not in labs_:
                        m2.dims[d_]["labels"] = labs_[:-1] + [new_]
                        break
        if s.get("transpose_var"):
            for k_ in m2.vars:              # the same variable stored with its dimensions in another order
                if len(m2.vars[k_]["dims"]) >= 2:
                    m2.vars[k_]["dims"] = m2.vars[k_]["dims"][::-1]
                    m2.vars[k_]["values"] = np.ascontiguousarray(m2.vars[k_]["values"].T)
                    break
        ds2 = _guard(lambda: _real_from_model(m2))
        if ds2[0] != "ok":
            raise Skip("second dataset")
        ds2 = ds2[1]
        real = lambda: f(ds, ds2)
        keys = [k for k in keys if k in m2.vars]
        for k in keys:
            per_var[k] = (lambda a, k=k: f(a, m2.array(k)))
    elif what in ("stack_ds", "concatenate_ds"):
        n = s.get("n", 2)
        models = [m]
        for i in range(1, n):
            if what == "concatenate_ds":
                models.append(_perturbed_model(m, dim, s["shift"] * i))
            else:
                models.append(_perturbed_model(m))
        if s.get("secondary_differs") and s.get("align"):
            # one secondary axis lacks a label in the last dataset: only align=True can join them
            mm = models[min(s.get("which_differs", len(models) - 1), len(models) - 1)]    # the last one, or one in the middle
            sec = [d_ for d_ in mm.used() if d_ != dim and len(mm.dims[d_]["labels"]) >= 2]
            if sec:
                d_ = sec[0]
                mm.dims[d_]["labels"] = mm.dims[d_]["labels"][:-1]
                for v_ in mm.vars.values():
                    if d_ in v_["dims"]:
                        ax_ = v_["dims"].index(d_)
                        v_["values"] = np.take(v_["values"], range(v_["values"].shape[ax_] - 1), axis=ax_)
        reals = [ds] if not m.unused else []
        for mm in models[len(reals):]:
            g = _guard(lambda: _real_from_model(mm))
            if g[0] != "ok":
                raise Skip("derived dataset")
            reals.append(g[1])
        def keeps_list(call):
            # the caller's list and the datasets in it are operands too
            ids = [id(x) for x in reals]
            snaps = [V.snap_dataset(x) for x in reals]
            try:
                return call()
            finally:
                if "C15" in w.props and ([id(x) for x in reals] != ids or [V.snap_dataset(x) for x in reals] != snaps):
                    raise Violation("C15", "operand_changed", "%s changed the list of datasets it was given (or a dataset in it)" % what)
        if what == "stack_ds":
            skeys = list(s["keys"])[:n]
            al = s["align"]
            real = lambda: keeps_list(lambda: da.stack_ds(reals, axis=s["axis"], keys=list(skeys), align=al))
            for k in keys:
                per_var[k] = (lambda a, k=k: da.stack([mm.array(k) for mm in models], axis=s["axis"], keys=list(skeys), align=al))
        else:
            al = s["align"]
            if not all(has(k) for k in keys):
                raise Skip("concatenate_ds is documented to require the dimension in every variable")
            real = lambda: keeps_list(lambda: da.concatenate_ds(reals, axis=dim, align=al))  # by name: a position is ambiguous across variables
            for k in keys:
                per_var[k] = (lambda a, k=k: da.concatenate([mm.array(k) for mm in models], axis=dim, align=al))
    else:
        raise Skip(what)

    # expected: per-variable DimArray operation on independent copies
    expected = {}
    var_raised = None
    for k in keys:
        g = _guard(lambda: per_var[k](m.array(k, like=ds)))
        if g[0] == "raise":
            var_raised = (k, g[1].__name__, g[2])
            break
        expected[k] = g[1]
    got = _guard(real)
    if V.snap_dataset(ds) != before and "C15" in w.props:
        raise Violation("C15", "operand_changed", "Dataset.%s changed the dataset it was called on: %s" % (
            what, V.describe_snap_diff(before, V.snap_dataset(ds))))
    if var_raised is not None:
        w.count("c14:skipped_per_variable_raises")
        return "unasserted:" + var_raised[1]
    multi = len(keys) >= 2
    if multi:
        w.n_ops_multi += 1
    lacking = [k for k in keys if dim is not None and not has(k)]
    w.count("c14:compared_%s%s" % (what, "_some_lack_dim" if lacking else ""))
    if not check:
        return got[0]
    if got[0] == "raise":
        raise Violation("C14", "ds_op_raises", "Dataset.%s(%s) raises %s (%s) while the DimArray operation succeeds on every variable (dims %r; variables %r)" % (
            what, _args(s), got[1].__name__, got[2], list(m.dims), {k: m.vars[k]["dims"] for k in keys}))
    res = got[1]
    if not isinstance(res, Dataset):
        raise Violation("C14", "ds_op_type", "Dataset.%s returned %s" % (what, type(res).__name__))
    rkeys = list(dict.keys(res))
    if sorted(rkeys) != sorted(keys):
        raise Violation("C14", "ds_op_keys", "Dataset.%s(%s): keys %r, expected %r" % (what, _args(s), rkeys, keys))
    for k in keys:
        rv = dict.__getitem__(res, k)
        ev = expected[k]
        if not isinstance(ev, da.DimArray):
            ev = da.DimArray(ev)
        # single precision: the order of floating-point operations may differ between the two code paths
        rtol = 1e-5 if (rv.values.dtype == np.float32 or ev.values.dtype == np.float32 or m.vars[k]["values"].dtype == np.float32) else 1e-9
        d = V.diff_arrays(rv, ev, rtol=rtol, attrs=False, dtype="exact" if rv.values.dtype.kind != "O" and ev.values.dtype.kind != "O" else "kind", kind=False)
        if d:
            oracle = "ds_op_unchanged" if k in lacking else "ds_op_var"
            raise Violation("C14", oracle, "Dataset.%s(%s): variable %r (dims %r%s): %s" % (
                what, _args(s), k, m.vars[k]["dims"], ", lacks the dimension" if k in lacking else "", d))
        if V.attrs_key(rv.attrs) != V.attrs_key(ev.attrs):
            raise Violation("C14", "ds_op_var_attrs", "Dataset.%s(%s): variable %r metadata %r, DimArray operation gives %r" % (
                what, _args(s), k, dict(rv.attrs), dict(ev.attrs)))
        for i, dname in enumerate(rv.dims):
            if dname not in res.dims or rv.axes[i] is not res.axes[dname]:
                raise Violation("C14", "ds_op_sharing", "Dataset.%s(%s): result[%r].axes[%r] is not result.axes[%r]" % (
                    what, _args(s), k, dname, dname))
    if what in KEEP_DS_ATTRS and V.attrs_key(res.attrs) != V.attrs_key(m.attrs):
        raise Violation("C14", "ds_op_attrs", "Dataset.%s(%s): dataset metadata %r, source had %r" % (what, _args(s), dict(res.attrs), m.attrs))
    if s.get("adopt"):
        # continue the history on the result: the model follows with the (verified) expected content
        from dsim.worlds.datasets import RefDataset, py_labels
        nm = RefDataset()
        for d in res.dims:
            nm.dims[d] = {"labels": py_labels(res.axes[d].values), "attrs": _copy.deepcopy(dict(res.axes[d].attrs))}
        for k in rkeys:
            rv = dict.__getitem__(res, k)
            nm.vars[k] = {"dims": list(rv.dims), "values": np.array(rv.values, copy=True), "attrs": _copy.deepcopy(dict(rv.attrs))}
        used = nm.used()
        nm.unused = set(d for d in nm.dims if d not in used)
        nm.attrs = _copy.deepcopy(dict(res.attrs))
        if any(any(isinstance(x, (tuple, list)) or x is None for x in v["labels"]) for v in nm.dims.values()):
            return "ok"
        if any(len(set(map(repr, v["labels"]))) != len(v["labels"]) for v in nm.dims.values()):
            return "ok"  # duplicate labels: the history does not continue on such a dataset
        w.ds, w.model = res, nm
        w.count("c14:adopted_result")
    return "ok"


def _args(s):
    return ", ".join("%s=%r" % (k, v) for k, v in sorted(s.items()) if k not in ("op", "what", "adopt"))
