"""Environmental faults of FileWorld: a storage error or a crash at the j-th storage call of a step.

Count-then-inject: the step is dry-run on a snapshot of the simulated store to count its N storage
calls, the snapshot is restored, and the step is re-run with the fault armed at call j in [1, N].
Only the narrow oracle of DESIGN 3.4 applies to a faulted step:
  fault_operand_changed  the in-memory operand of the step is unchanged;
  fault_keeps            every variable that was on file (and synced) before the step, and that the
                         step was not writing, still reads back equal to the model;
  fault_recovery         once faults stop, a fresh write_nc(mode='w') + read_nc on the path succeeds.
Whatever the faulted step was writing becomes 'unknown' in the model, whether or not it reported success.
"""
import copy as _copy

from dsim.kernel import Violation
from dsim import values as V
from dsim.worlds.arrays import Skip
from dsim.standin.simfs import FS, Crash
from dsim.worlds import file_ops as F


def _p(w):
    return "C20" if "C20" in w.props else "C19"


def _save(w):
    return {"fs_files": _copy.deepcopy(FS.files), "fs_hist": _copy.deepcopy(FS.history), "fs_synced": _copy.deepcopy(FS.synced),
            "fs_handles": list(FS.handles), "fs_total": FS.total_calls, "fs_fired": list(FS.fired),
            "files": _copy.deepcopy(w.files), "counts": list(w.counts), "n": (w.n_writes, w.n_reads, w.n_disk),
            "plan": list(w.plan), "counter": w.counter}


def _restore(w, sv, keep_counts=False):
    """Bring the simulated store and the model back to the snapshot (the snapshot itself stays pristine)."""
    FS.files, FS.history, FS.synced = _copy.deepcopy(sv["fs_files"]), _copy.deepcopy(sv["fs_hist"]), _copy.deepcopy(sv["fs_synced"])
    for h in FS.handles[len(sv["fs_handles"]):]:
        h._closed = True
    FS.handles = list(sv["fs_handles"])
    FS.total_calls = sv["fs_total"]
    FS.fired = list(sv["fs_fired"])
    w.files = _copy.deepcopy(sv["files"])
    if not keep_counts:
        w.counts = list(sv["counts"])
    w.n_writes, w.n_reads, w.n_disk = sv["n"]
    w.plan = list(sv["plan"])
    w.counter = sv["counter"]
    w.handles.clear()
    FS.sync_markers()


def _plain(w, s, fn):
    FS.begin_step()
    try:
        return fn(w, s)
    except Skip:
        return "skipped"
    finally:
        F.finalize_leaks(w)


def affected_paths(s):
    if "paths" in s:
        return list(s["paths"])
    return [s["path"]] if "path" in s else []


def mark_unknown(w, s, pre_dims=None):
    """Everything the faulted step was writing is excluded from equality until rewritten."""
    op = s["op"]
    for path, before in (pre_dims or {}).items():
        fm = w.files.get(path)
        if fm is not None:
            for d, dv in fm.dims.items():
                if d not in before:
                    dv["unknown"] = True      # a dimension created by the faulted step (labels / metadata may be partial)
    for path in affected_paths(s):
        if not FS.exists(path):
            w.files.pop(path, None)
            continue
        fm = w.files.get(path)
        replace = (op == "ds_write" and s["mode"] == "w") or (op == "arr_write" and (s["mode"] in ("w", "w-") or fm is None)) \
            or op in ("unlim_create", "multi_read") or (pre_dims is not None and path not in pre_dims)   # the file did not exist before the step
        if replace or fm is None:
            w.files.pop(path, None)
            F.absorb_unknown(w, path)
            fm = w.files.get(path)
            if fm is not None:
                fm.attrs_unknown = True
            continue
        targets = []
        if op == "ds_write":
            targets = [vs["name"] for vs in s["spec"]["vars"]]
            fm.attrs_unknown = True
        elif op in ("arr_write", "h_set", "disk_assign", "unlim_extend"):
            targets = [s["name"]]
        if op == "unlim_extend":
            d = s["dim"]
            if d in fm.dims:
                fm.dims[d]["unknown"] = True
            targets = [k for k, v in fm.vars.items() if d in v["dims"]]
        for k in targets:
            if k in fm.vars:
                fm.vars[k]["unknown"] = True
        F.absorb_unknown(w, path)


def verify_known(w, path, what):
    fm = w.files.get(path)
    if fm is None or not FS.exists(path):
        return
    prop = _p(w)
    for name in F.known_vars(fm):
        v = fm.vars[name]
        if any(fm.dims[d]["unknown"] for d in v["dims"]):
            continue
        try:
            got = w.da.read_nc(path, name)
        except Exception as e:
            raise Violation(prop, "fault_keeps", "%s: variable %r, on file before the faulted step, can no longer be read: %s: %s" % (
                what, name, type(e).__name__, str(e)[:160]))
        finally:
            F.finalize_leaks(w)
        if not isinstance(got, w.da.DimArray):
            got = w.da.DimArray(got)
        F.compare_array(w, got, fm, name, "fault_keeps", prop, what)
        w.count("fault:kept_variable_verified")


def run_with_fault(w, s, fn):
    fault = s["fault"]
    if w.handles:
        return _plain(w, s, fn) + ":nofault"
    props = w.props
    # ---- dry run: count the storage calls of this step
    sv = _save(w)
    w.props = set()
    FS.begin_step()
    try:
        fn(w, s)
        n_calls = FS.ncalls
        dry_ok = True
    except Skip:
        n_calls, dry_ok = 0, False
    except Violation:
        n_calls, dry_ok = 0, False
    finally:
        w.props = props
        F.finalize_leaks(w)
        _restore(w, sv)
    if not dry_ok or n_calls == 0:
        return _plain(w, s, fn) + ":nofault"
    kind = fault["kind"]
    if fault.get("sweep"):
        # exhaustive fault-point enumeration for this step: every storage call j in [1, N], each on the same pre-state
        for j in range(1, n_calls + 1):
            _restore(w, sv, keep_counts=True)
            _faulted(w, s, fn, j, n_calls, kind, fault, props, recovery_inline=True)
        _restore(w, sv, keep_counts=True)
        w.count("fault:sweep_steps")
        return _plain(w, s, fn) + ":swept%d" % n_calls
    j = min(n_calls, 1 + int(fault["frac"] * n_calls))
    return _faulted(w, s, fn, j, n_calls, kind, fault, props, recovery_inline=False)


def _faulted(w, s, fn, j, n_calls, kind, fault, props, recovery_inline):
    # ---- the faulted execution
    pre_dims = {p_: set(w.files[p_].dims) for p_ in affected_paths(s) if p_ in w.files}
    w.props = set()
    FS.begin_step(armed=(j, kind))
    crashed, out = False, "?"
    try:
        out = fn(w, s)
    except Skip:
        out = "skipped"
    except Crash:
        crashed = True
        out = "crashed"
    except Violation as v:
        w.props = props
        raise Violation(_p(w), "fault_operand_changed", "under an injected %s at storage call %d/%d: %s" % (kind, j, n_calls, v.detail))
    finally:
        w.props = props
    fired = FS.armed is None
    FS.armed = None
    site = FS.fired[-1][0].split(":")[0] if fired and FS.fired else "none"
    if crashed:
        pick = fault["survive"]
        FS.crash(lambda n: min(n - 1, int(pick * n)))
        w.handles.clear()
        w.count("fault:crash@" + site)
    else:
        F.finalize_leaks(w)
        w.count(("fault:storage_error@" + site) if fired else "fault:armed_but_not_reached")
    if fired:
        w.count("fault:outcome_" + ("reported_success" if out.startswith("ok") else "reported_failure" if not crashed else "crash"))
    if not crashed:
        for path in pre_dims:
            replacing = (s["op"] == "ds_write" and s["mode"] == "w") or (s["op"] == "arr_write" and s["mode"] in ("w", "w-")) \
                or s["op"] in ("unlim_create", "multi_read")
            if not replacing and not FS.exists(path):
                raise Violation(_p(w), "fault_keeps", "after an injected %s at storage call %d/%d (%s) of %s (%s): the file %s, which existed before and was only being appended to / read, is gone" % (
                    kind, j, n_calls, site, s["op"], s.get("mode", "-"), path))
    mark_unknown(w, s, pre_dims)
    for path in list(w.files):
        if not FS.exists(path):
            del w.files[path]
    # ---- narrow oracle
    where = "after an injected %s at storage call %d/%d (%s) of %s" % (kind, j, n_calls, site, s["op"])
    for path in affected_paths(s):
        verify_known(w, path, where)
    # ---- bounded recovery
    if recovery_inline:
        for path in affected_paths(s)[:1]:
            recover_now(w, path, where)
    elif w.faults_left == 0 and affected_paths(s):
        path = affected_paths(s)[0]
        from dsim.worlds.files import gen_dataset_spec
        w.plan = [lambda w_, r_, p=path: {"op": "ds_write", "path": p, "mode": "w", "spec": gen_dataset_spec(r_, w_.cfg), "recovery": True},
                  lambda w_, r_, p=path: {"op": "read", "path": p, "how": "read_nc", "recovery": True}] + w.plan
    return "faulted:%s:%s" % (kind if fired else "notreached", out.split(":")[0])


RECOVERY_SPEC = {"dims": {"x": [1, 2]}, "axattrs": {"x": {}}, "attrs": {"title": "recovery"},
                 "vars": [{"name": "va", "dims": ["x"], "dtype": "f8", "values": [1.0, 2.0], "attrs": {}}]}


def recover_now(w, path, where):
    """Within two steps after the fault: a fresh write_nc(mode='w') and a read_nc of the path must succeed."""
    from dsim.worlds.files import build_dataset
    ds = build_dataset(RECOVERY_SPEC)
    try:
        ds.write_nc(path, mode="w")
        back = w.da.read_nc(path)
        ok = list(back.keys()) == ["va"] and V._close(back["va"].values, ds["va"].values, 0)
        err = "content differs" if not ok else None
    except Exception as e:
        ok, err = False, "%s: %s" % (type(e).__name__, str(e)[:160])
    finally:
        F.finalize_leaks(w)
    if not ok:
        raise Violation(_p(w), "fault_recovery", "%s: a fresh write_nc(mode='w') + read_nc of %s does not work (%s)" % (where, path, err))
    w.count("fault:recovery_verified")
