"""Environmental faults (placeholder)."""
def run_with_fault(w, s, fn):
    from dsim.standin.simfs import FS
    from dsim.worlds.arrays import Skip
    from dsim.worlds.file_ops import finalize_leaks
    FS.begin_step()
    try:
        return fn(w, s)
    except Skip:
        return "skipped"
    finally:
        finalize_leaks(w)
