"""Step alphabet and oracles of FileWorld (C19, C20)."""
import copy as _copy
import json
import numpy as np

from dsim.kernel import Violation
from dsim import values as V
from dsim.worlds.arrays import Skip, dec_index, gen_label_index, gen_pos_index
from dsim.worlds.files import (PATHS, VARNAMES, RefFile, gen_dataset_spec, build_dataset, var_array, gen_meta,
                               meta_equal)
from dsim.standin.simfs import FS, Crash


# ===================================================================================== helpers

def _prop(w, default):
    return default if (default in w.props or not w.props) else sorted(w.props)[0]


def operand_violation(w, detail):
    """The object handed to a writer changed: C19 says so itself; otherwise it is C15's business."""
    if "C19" in w.props or not w.props:
        raise Violation("C19", "writer_unchanged", detail)
    if "C15" in w.props:
        raise Violation("C15", "operand_changed", detail)
    w.count("c15:operand_change_seen_by_other_check")


def known_vars(fm):
    return [k for k, v in fm.vars.items() if not v["unknown"] and k not in fm.dims]


def expected_values(v):
    return v["values"]


def compare_array(w, got, fm, name, oracle, prop, what):
    """`got` (DimArray read from the file) against the model's variable `name`."""
    mv = fm.vars[name]
    if not isinstance(got, w.da.DimArray):
        got = w.da.DimArray(np.asarray(got))   # a bare scalar came back: compare it as a 0-d array without metadata
    if list(got.dims) != list(mv["dims"]):
        raise Violation(prop, oracle, "%s: variable %s dims %r, written %r" % (what, name, got.dims, mv["dims"]))
    want = mv["values"]
    gv = got.values
    if gv.shape != want.shape:
        raise Violation(prop, oracle, "%s: variable %s shape %r, written %r" % (what, name, gv.shape, want.shape))
    if not V._close(gv, want, 1e-12):
        raise Violation(prop, oracle, "%s: variable %s values %r, written %r" % (what, name, gv.tolist(), want.tolist()))
    gk, wk = gv.dtype.kind, want.dtype.kind
    if gk == "U":
        gk = "O"   # how a single string comes back is a property of netCDF4, not of dimarray (DESIGN section 8)
    if gk != wk and not (mv.get("has_missing") and wk in "iu" and gk == "f"):
        raise Violation(prop, oracle, "%s: variable %s dtype kind %s, written %s" % (what, name, gv.dtype.kind, wk))
    for i, d in enumerate(mv["dims"]):
        md = fm.dims[d]
        if md["unknown"]:
            continue
        labs = md["labels"] if md["labels"] is not None else list(range(want.shape[i]))
        gl = got.axes[i].values
        wl = V.label_array(labs)
        if not V._close(gl, wl, 0) or _lkind(gl) != _lkind(wl):
            raise Violation(prop, oracle, "%s: variable %s axis %s labels %r (%s), written %r (%s)" % (
                what, name, d, V.labels_list(gl), _lkind(gl), labs, _lkind(wl)))
        if md["labels"] is not None and not md.get("attrs_unknown") and not meta_equal(dict(got.axes[i].attrs), md["attrs"]):
            raise Violation(prop, oracle, "%s: axis %s metadata %r, written %r" % (what, d, dict(got.axes[i].attrs), md["attrs"]))
    if not mv.get("attrs_unknown") and not meta_equal(dict(got.attrs), mv["attrs"]):
        raise Violation(prop, oracle, "%s: variable %s metadata %r, written %r" % (what, name, dict(got.attrs), mv["attrs"]))


def _lkind(vals):
    k = V.label_kind(vals)
    return {"O:str": "str", "O:": "empty"}.get(k, k)


def compare_dataset(w, ds, fm, oracle, prop, what, names=None):
    want = known_vars(fm) if names is None else [n for n in names if not fm.vars[n]["unknown"]]
    got = [k for k in ds.keys() if not (k in fm.vars and fm.vars[k]["unknown"])]
    if sorted(got) != sorted(want):
        raise Violation(prop, oracle, "%s: variables %r, file holds %r" % (what, sorted(got), sorted(want)))
    for k in want:
        compare_array(w, ds[k], fm, k, oracle, prop, what)
    if names is None:
        missing = [d for d in fm.dims if d not in ds.dims and not fm.dims[d]["unknown"]]
        if missing:
            raise Violation(prop, oracle, "%s: dimensions %r of the file are missing from the dataset %r" % (what, missing, ds.dims))
    if not fm.attrs_unknown and not meta_equal(dict(ds.attrs), fm.attrs):
        raise Violation(prop, oracle, "%s: dataset metadata %r, written %r" % (what, dict(ds.attrs), fm.attrs))


def absorb_unknown(w, path):
    """After a failed/faulted write: whatever the store now holds beyond the model is 'unknown' (excluded from equality)."""
    fm = w.files.get(path)
    img = FS.files.get(path)
    if img is None:
        w.files.pop(path, None)
        return
    if fm is None:
        fm = w.files[path] = RefFile(img.format)
    for d, di in img.dims.items():
        if d not in fm.dims:
            fm.dims[d] = {"labels": None, "attrs": {}, "unlimited": di.unlimited, "unknown": True}
    for k, vi in img.vars.items():
        if k in fm.dims:
            continue
        if k in img.dims:
            continue
        if k not in fm.vars:
            fm.vars[k] = {"dims": list(vi.dims), "values": np.zeros(()), "attrs": {}, "unknown": True}


def close_all(w, path=None):
    for hid in list(w.handles):
        p, mode, h = w.handles[hid]
        if path is None or p == path:
            try:
                h.close()
            except Exception:
                pass
            del w.handles[hid]


def finalize_leaks(w):
    """Handles the library left open (no try/finally in nc.py) would be closed by refcounting: do it at the step boundary."""
    mine = set(id(h.nc) for (_, _, h) in w.handles.values())
    n = 0
    for h in FS.open_handles():
        if id(h) not in mine:
            h._closed = True
            if FS.files.get(h._path) is h._img:
                FS.sync(h._path)
            n += 1
    if n:
        w.count("c19:leaked_handles_finalized")


def verify_file(w, path, oracle, prop, what):
    """Read the whole file back (fresh handle) and compare with the model."""
    fm = w.files.get(path)
    if fm is None:
        return
    try:
        ds = w.da.read_nc(path)
    except Exception as e:
        raise Violation(prop, oracle, "%s: read_nc(%s) raises %s: %s" % (what, path, type(e).__name__, str(e)[:200]))
    finally:
        finalize_leaks(w)
    compare_dataset(w, ds, fm, oracle, prop, what)
    w.n_reads += 1
    w.count("c19:readback_verified")


def file_spec_for_append(w, rng, fm, name=None, nvars=1):
    """Dataset spec agreeing with the file's dimensions (labels), possibly bringing new dimensions."""
    dl = {d: v["labels"] for d, v in fm.dims.items() if v["labels"] is not None and not v["unknown"] and not v["unlimited"]}
    free = [n for n in VARNAMES if n not in fm.vars and n not in fm.dims]
    names = [name] if name else rng.sample(free, min(nvars, len(free)))
    if not names:
        return None
    cfg = dict(w.cfg)
    spec = gen_dataset_spec(rng, cfg, dims_labels=dl, nvars=len(names), names=names)
    # dims of the file that have no labels / are unknown / unlimited cannot be used by an appended variable here
    bad = [d for d, v in fm.dims.items() if v["labels"] is None or v["unknown"] or v["unlimited"]]
    for vs in spec["vars"]:
        if any(d in bad for d in vs["dims"]):
            return None
    return spec


# ===================================================================================== generation

def gen_step(w, rng):
    cfg = w.cfg
    if getattr(w, "dead", False):
        return None
    plan = getattr(w, "plan", None)
    while plan:
        f = plan.pop(0)
        st = f(w, rng)
        if st is not None:
            return maybe_fault(w, rng, st)
    existing = [p for p in PATHS if p in w.files]
    c20 = rng.random() < cfg["c20_rate"] and existing
    if c20:
        from dsim.worlds import file_ops20
        st = file_ops20.gen(w, rng)
        if st is not None:
            return maybe_fault(w, rng, st)
    r = rng.random()
    if not existing or r < 0.22:
        path = rng.choice(PATHS)
        st = {"op": "ds_write", "path": path, "mode": "w", "spec": gen_dataset_spec(rng, cfg)}
    elif r < 0.40:
        st = _gen_arr_write(w, rng)
    elif r < 0.50:
        st = _gen_handle_step(w, rng)
    elif r < 0.56:
        path = rng.choice(existing)
        spec = file_spec_for_append(w, rng, w.files[path], nvars=rng.randint(1, 2))
        st = {"op": "ds_write", "path": path, "mode": "a", "spec": spec} if spec else None
    elif r < 0.62:
        st = {"op": "json_rt", "arr": V.gen_array_spec(rng, dict(cfg, dtypes=["f8", "i8", "O"], mutable_meta=True))}
        if rng.random() < 0.2:
            st["null_meta"] = rng.choice(["comment", "units"])
    elif r < 0.70:
        st = _gen_reject(w, rng)
    elif r < 0.75 and existing:
        # read a file and write what was read into another file: the second generation must equal the first
        src = rng.choice(existing)
        st = {"op": "rewrite", "src": src, "dst": rng.choice([p for p in PATHS if p != src])}
    else:
        path = rng.choice(existing)
        fm = w.files[path]
        names = known_vars(fm)
        how = rng.choice(["read_nc", "open_read", "var", "names", "handle_var", "nc_handle"])
        st = {"op": "read", "path": path, "how": how}
        if how in ("var", "handle_var"):
            if not names:
                st["how"] = "read_nc"
            else:
                st["name"] = rng.choice(names)
        elif how == "names":
            st["names"] = rng.sample(names, rng.randint(0, len(names)))
            if not st["names"]:
                st["how"] = "read_nc"
    if st is None:
        return gen_step(w, rng)
    return maybe_fault(w, rng, st)


def maybe_fault(w, rng, st):
    """Fault configuration: arm one storage fault inside a step that touches the store."""
    if w.faults_left > 0 and st["op"] in ("ds_write", "arr_write", "read", "disk_assign", "disk_index", "unlim_extend") and not w.handles \
            and not st.get("recovery") and rng.random() < 0.35:
        w.faults_left -= 1
        st["fault"] = {"frac": rng.random(), "kind": w.cfg["fault_kind"], "survive": rng.random()}
        if w.cfg.get("sweep"):
            st["fault"]["sweep"] = True
    return st


def _gen_arr_write(w, rng):
    existing = [p for p in PATHS if p in w.files]
    mode = rng.choice(["a", "a", "a+", "a+", "w", "w-"])
    if mode in ("a",) or (mode == "a+" and rng.random() < 0.7):
        path = rng.choice(existing)
    elif mode == "w-":
        missing = [p for p in PATHS if p not in w.files]
        if not missing:
            return None
        path = rng.choice(missing)
    else:
        path = rng.choice(PATHS)
    fm = w.files.get(path)
    if fm is not None and mode in ("a", "a+"):
        name = None
        same = [k for k in known_vars(fm) if all(not fm.dims[d]["unlimited"] for d in fm.vars[k]["dims"])]
        if same and rng.random() < 0.25:
            name = rng.choice(same)  # overwrite an existing variable: same dims
            vs_dims = fm.vars[name]["dims"]
            dl = {d: fm.dims[d]["labels"] for d in vs_dims}
            if any(l is None for l in dl.values()):
                return None
            dt = {"f": "f8", "i": "i8", "O": "O"}.get(fm.vars[name]["values"].dtype.kind, "f8")
            if dt == "i8" and fm.vars[name]["values"].dtype == np.int32:
                dt = "i4"
            arr = V.gen_array_spec(rng, dict(w.cfg, mutable_meta=False), dims=list(vs_dims), labels=[dl[d] for d in vs_dims], dtype=dt)
            arr.pop("axattrs", None)
            arr["attrs"] = gen_meta(rng, w.cfg["meta_density"])
            return {"op": "arr_write", "path": path, "name": name, "mode": mode, "arr": arr}
        spec = file_spec_for_append(w, rng, fm, nvars=1)
        if not spec or not spec["vars"]:
            return None
        vs = spec["vars"][0]
        arr = {"dims": vs["dims"], "labels": [spec["dims"][d] for d in vs["dims"]], "dtype": vs["dtype"], "values": vs["values"],
               "attrs": vs["attrs"], "axattrs": [spec["axattrs"].get(d, {}) for d in vs["dims"]], "forder": vs.get("forder", False)}
        return {"op": "arr_write", "path": path, "name": vs["name"], "mode": mode, "arr": arr}
    spec = gen_dataset_spec(rng, w.cfg, nvars=1)
    vs = spec["vars"][0]
    arr = {"dims": vs["dims"], "labels": [spec["dims"][d] for d in vs["dims"]], "dtype": vs["dtype"], "values": vs["values"],
           "attrs": vs["attrs"], "axattrs": [spec["axattrs"].get(d, {}) for d in vs["dims"]], "forder": vs.get("forder", False)}
    return {"op": "arr_write", "path": path, "name": vs["name"], "mode": mode, "arr": arr}


def _gen_reject(w, rng):
    existing = [p for p in PATHS if p in w.files]
    missing = [p for p in PATHS if p not in w.files]
    kind = rng.choice(["append_missing", "exclusive_existing", "exclusive_existing", "size_mismatch", "open_missing"])
    if kind in ("append_missing", "open_missing"):
        if not missing:
            return None
        spec = gen_dataset_spec(rng, w.cfg, nvars=1)
        vs = spec["vars"][0]
        arr = {"dims": vs["dims"], "labels": [spec["dims"][d] for d in vs["dims"]], "dtype": vs["dtype"], "values": vs["values"]}
        return {"op": "reject", "kind": kind, "path": rng.choice(missing), "name": vs["name"], "arr": arr}
    if not existing:
        return None
    path = rng.choice(existing)
    fm = w.files[path]
    if kind == "exclusive_existing":
        spec = gen_dataset_spec(rng, w.cfg, nvars=1)
        vs = spec["vars"][0]
        arr = {"dims": vs["dims"], "labels": [spec["dims"][d] for d in vs["dims"]], "dtype": vs["dtype"], "values": vs["values"]}
        return {"op": "reject", "kind": kind, "path": path, "name": vs["name"], "arr": arr, "via": rng.choice(["w-", "w_noclobber", "ds_noclobber"])}
    cands = [d for d, v in fm.dims.items() if v["labels"] and not v["unknown"] and not v["unlimited"]]
    free = [n for n in VARNAMES if n not in fm.vars and n not in fm.dims]
    if not cands or not free:
        return None
    d = rng.choice(cands)
    labs = list(fm.dims[d]["labels"])
    extra = V.gen_labels(rng, 6, "str" if isinstance(labs[0], str) else ("float" if isinstance(labs[0], float) else "int"))
    extra = [x for x in extra if x not in labs]
    if not extra:
        return None
    labs = labs + extra[:1] if rng.random() < 0.6 or len(labs) < 3 else labs[:-1]   # never length 1: that broadcasts
    arr = V.gen_array_spec(rng, dict(w.cfg, mutable_meta=False), dims=[d], labels=[labs], dtype="f8")
    return {"op": "reject", "kind": kind, "path": path, "name": rng.choice(free), "arr": arr, "mode": rng.choice(["a", "a+"])}


def _gen_handle_step(w, rng):
    existing = [p for p in PATHS if p in w.files]
    if w.handles and (len(w.handles) == 1 and getattr(w, "plan", None) is not None and rng.random() < 0.75 or rng.random() < 0.75):
        hid = rng.choice(sorted(w.handles))
        path, mode, h = w.handles[hid]
        fm = w.files.get(path)
        if mode == "r" or fm is None or rng.random() < 0.3:
            return {"op": "h_close", "hid": hid}
        what = rng.choice(["h_set", "h_set", "h_meta", "h_axes_append"])
        if what == "h_set":
            spec = file_spec_for_append(w, rng, fm, nvars=1)
            if not spec or not spec["vars"]:
                return {"op": "h_close", "hid": hid}
            vs = spec["vars"][0]
            arr = {"dims": vs["dims"], "labels": [spec["dims"][d] for d in vs["dims"]], "dtype": vs["dtype"], "values": vs["values"],
                   "attrs": vs["attrs"], "axattrs": [spec["axattrs"].get(d, {}) for d in vs["dims"]]}
            return {"op": "h_set", "hid": hid, "name": vs["name"], "arr": arr}
        if what == "h_meta":
            level = rng.choice(["ds", "var", "axis"])
            st = {"op": "h_meta", "hid": hid, "level": level, "name": rng.choice(["history", "source", "comment"]),
                  "value": rng.choice(["txt", 7, 2.5, [1, 2, 3]])}
            if level == "var":
                names = known_vars(fm)
                if not names:
                    return None
                st["target"] = rng.choice(names)
            elif level == "axis":
                dims = [d for d, v in fm.dims.items() if v["labels"] is not None and not v["unknown"]]
                if not dims:
                    return None
                st["target"] = rng.choice(dims)
            return st
        free = [d for d in ["s", "m"] if d not in fm.dims and d not in fm.vars]
        if not free:
            return None
        d = rng.choice(free)
        return {"op": "h_axes_append", "hid": hid, "name": d, "labels": V.gen_labels(rng, rng.randint(1, 3), w.cfg["dim_kind"][d]),
                "form": rng.choice(["axis", "pair"])}
    w.counter += 1
    mode = rng.choice(["a", "a", "r", "w"])
    if mode == "w":
        path = rng.choice(PATHS)
    else:
        if not existing:
            return None
        path = rng.choice(existing)
    if any(p == path for (p, m, h) in w.handles.values()):
        return None   # one handle per path at a time (what a second open does is a property of HDF5 locking)
    hid = "h%d" % w.counter
    if mode != "r":
        # work through the handle for a few steps before anything else touches the path
        def follow(w_, r_, hid=hid):
            if hid not in w_.handles:
                return None
            for _ in range(4):
                st = _gen_handle_step_for(w_, r_, hid)
                if st is not None:
                    return st
            return None
        w.plan = [follow] * rng.randint(1, 4) + [lambda w_, r_, hid=hid: {"op": "h_close", "hid": hid} if hid in w_.handles and r_.random() < 0.6 else None]
    return {"op": "open", "path": path, "mode": mode, "hid": hid}


def _gen_handle_step_for(w, rng, hid):
    saved = w.handles
    try:
        w.handles = {hid: saved[hid]}
        st = _gen_handle_step(w, rng)
    finally:
        w.handles = saved
    if st is None or st.get("op") in ("open", "h_close"):
        return None
    return st


# ===================================================================================== execution

def exec_step(w, s):
    op = s["op"]
    if op.startswith("disk_") or op.startswith("unlim_") or op == "multi_read":
        from dsim.worlds import file_ops20
        fn = file_ops20.STEPS[op]
    else:
        fn = STEPS[op]
    fault = s.get("fault")
    if fault:
        from dsim.worlds import file_faults
        return file_faults.run_with_fault(w, s, fn)
    if getattr(w, "dead", False):
        return "skipped"
    FS.begin_step()
    try:
        return fn(w, s)
    except Skip:
        return "skipped"
    except Violation:
        raise
    except Exception as e:
        from dsim.worlds.datasets import raised_in_library
        if not raised_in_library(e):
            raise
        if "C19" in w.props and op in ("open", "h_close", "h_axes_append", "h_meta", "read", "ds_write", "arr_write", "h_set"):
            raise Violation("C19", "write_raises", "%s (%s) raised %s: %s" % (
                op, ", ".join("%s=%r" % kv for kv in sorted(s.items()) if kv[0] not in ("op", "spec", "arr", "specs")), type(e).__name__, str(e)[:160]))
        w.dead = True
        w.count("world_stopped_library_raised_in_%s" % op)
        return "raise:" + type(e).__name__
    finally:
        finalize_leaks(w)


def _fmt(w, s):
    return {"format": w.cfg["format"]} if w.cfg.get("explicit_format") else {}


def x_ds_write(w, s):
    path, mode, spec = s["path"], s["mode"], s["spec"]
    fm = w.files.get(path)
    if mode == "a" and fm is None:
        raise Skip("no file")
    if any(p == path for (p, m, h) in w.handles.values()):
        close_all(w, path)
    ds = build_dataset(spec)
    before = V.snap_dataset(ds)
    prop = _prop(w, "C19")
    if mode == "a":
        for vs in spec["vars"]:
            for d in vs["dims"]:
                if d in fm.dims and (fm.dims[d]["labels"] is None or fm.dims[d]["unknown"] or fm.dims[d]["unlimited"]
                                     or not _same_labels(fm.dims[d]["labels"], spec["dims"][d])):
                    raise Skip("stale spec")
            if vs["name"] in fm.vars and (fm.vars[vs["name"]]["unknown"] or fm.vars[vs["name"]]["dims"] != vs["dims"]):
                raise Skip("stale spec")
            if vs["name"] in fm.dims:
                raise Skip("name")
    try:
        kw = dict(_fmt(w, s))
        kw.update(spec.get("nc_kwargs", {}))
        if s.get("alias"):
            w.count("c19:write_alias")
        (ds.write if s.get("alias") else ds.write_nc)(path, mode="a+" if (s.get("aplus") and mode == "a") else mode, **kw)
    except Exception as e:
        absorb_unknown(w, path)
        if s.get("recovery") and w.props:
            raise Violation("C20" if "C20" in w.props else "C19", "fault_recovery", "after the faults stopped, a fresh Dataset.write_nc(%s, mode='w') still raises %s: %s" % (path, type(e).__name__, str(e)[:200]))
        if "C19" in w.props:
            raise Violation("C19", "write_raises", "Dataset.write_nc(%s, mode=%r) raises %s: %s" % (path, mode, type(e).__name__, str(e)[:200]))
        return "raise:" + type(e).__name__
    if V.snap_dataset(ds) != before:
        operand_violation(w, "Dataset.write_nc changed the dataset: %s" % V.describe_snap_diff(before, V.snap_dataset(ds)))
    if mode == "w":
        fm = w.files[path] = RefFile(w.cfg["format"])
    for d in ds.dims:  # write_nc first appends every axis of the dataset
        if d not in fm.dims:
            fm.dims[d] = {"labels": V.labels_list(ds.axes[d].values), "attrs": _copy.deepcopy(dict(ds.axes[d].attrs)),
                          "unlimited": False, "unknown": False}
    for k in ds.keys():
        fm.add_array(k, ds[k])
    fm.attrs.update(_copy.deepcopy(dict(ds.attrs)))
    w.n_writes += 1
    w.count("c19:ds_write_" + mode)
    if "C19" in w.props:
        verify_file(w, path, "rt_equal" if mode == "w" else "append_keeps", "C19", "after Dataset.write_nc(mode=%r)" % mode)
    return "ok"


def _same_labels(a, b):
    return len(a) == len(b) and all((isinstance(x, str) == isinstance(y, str)) and x == y for x, y in zip(a, b))


def x_arr_write(w, s):
    path, mode, name = s["path"], s["mode"], s["name"]
    fm = w.files.get(path)
    a = V.build_array(s["arr"])
    before = V.snap(a)
    if any(p == path for (p, m, h) in w.handles.values()):
        close_all(w, path)
    exists = fm is not None
    if mode == "a" and not exists:
        raise Skip("would be rejected")
    if mode == "w-" and exists:
        raise Skip("would be rejected")
    appending = exists and mode in ("a", "a+")
    if appending:
        if name in fm.dims:
            raise Skip("name")
        for i, d in enumerate(a.dims):
            if d in fm.dims and (fm.dims[d]["labels"] is None or fm.dims[d]["unknown"] or fm.dims[d]["unlimited"]
                                 or not _same_labels(fm.dims[d]["labels"], s["arr"]["labels"][i])):
                raise Skip("stale spec")
        if name in fm.vars and (fm.vars[name]["unknown"] or fm.vars[name]["dims"] != list(a.dims)):
            raise Skip("stale spec")
    try:
        if s.get("alias"):
            w.count("c19:write_alias")
        ckw = {"clobber": True} if (s.get("clobber") and exists and mode in ("a", "a+")) else {}
        (a.write if s.get("alias") else a.write_nc)(path, name, mode=mode, **dict(_fmt(w, s), **ckw))
    except Exception as e:
        absorb_unknown(w, path)
        if "C19" in w.props:
            raise Violation("C19", "write_raises", "DimArray.write_nc(%s, %r, mode=%r) raises %s: %s" % (path, name, mode, type(e).__name__, str(e)[:200]))
        return "raise:" + type(e).__name__
    if V.snap(a) != before:
        operand_violation(w, "DimArray.write_nc changed the array: %s" % V.describe_snap_diff(before, V.snap(a)))
    if not appending:
        fm = w.files[path] = RefFile(w.cfg["format"])
    fm.add_array(name, a)
    w.n_writes += 1
    w.count("c19:arr_write_%s_%s" % (mode, "append" if appending else "create"))
    if "C19" in w.props:
        verify_file(w, path, "append_keeps" if appending else "rt_equal", "C19", "after DimArray.write_nc(mode=%r)" % mode)
    return "ok"


def x_reject(w, s):
    kind, path, name = s["kind"], s["path"], s["name"]
    fm = w.files.get(path)
    a = V.build_array(s["arr"])
    before = V.snap(a)
    img_before = FS.files.get(path)
    ver_before = img_before.version if img_before is not None else None
    if any(p == path for (p, m, h) in w.handles.values()):
        close_all(w, path)
    if kind in ("append_missing", "open_missing"):
        if fm is not None:
            raise Skip("exists")
        call = (lambda: a.write_nc(path, name, mode="a")) if kind == "append_missing" else (lambda: w.da.open_nc(path, mode=s.get("mode", "r")))
    elif kind == "exclusive_existing":
        if fm is None:
            raise Skip("missing")
        via = s.get("via", "w-")
        if via == "w-":
            call = lambda: a.write_nc(path, name, mode="w-")
        elif via == "w_noclobber":
            call = lambda: a.write_nc(path, name, mode="w", clobber=False)
        else:
            from dimarray import Dataset
            call = lambda: Dataset({name: a}).write_nc(path, mode="w", clobber=False)
    else:
        if fm is None or name in fm.vars or name in fm.dims:
            raise Skip("stale")
        d = s["arr"]["dims"][0]
        if d not in fm.dims or fm.dims[d]["labels"] is None or len(fm.dims[d]["labels"]) == len(s["arr"]["labels"][0]) \
                or len(s["arr"]["labels"][0]) == 1 or fm.dims[d]["unlimited"]:
            raise Skip("stale")
        call = lambda: a.write_nc(path, name, mode=s.get("mode", "a"))
    raised = None
    try:
        call()
    except Exception as e:
        raised = e
    w.count("fault:rejected_file_operation_" + kind)
    if V.snap(a) != before:
        operand_violation(w, "rejected %s changed the array" % kind)
    if "C19" in w.props:
        if raised is None:
            raise Violation("C19", "reject_raises", "file operation that must be refused (%s on %s) succeeded" % (kind, path))
        if kind in ("append_missing", "open_missing") and FS.exists(path):
            raise Violation("C19", "reject_raises", "refused %s created the file %s" % (kind, path))
        if kind == "exclusive_existing" and (FS.files.get(path) is not img_before or img_before.version != ver_before):
            raise Violation("C19", "append_keeps", "refused exclusive create (mode='w-') modified the existing file %s" % path)
    if kind == "size_mismatch":
        if "C19" in w.props and not FS.exists(path):
            raise Violation("C19", "append_keeps", "a refused append (mode=%r, size mismatch) removed the existing file %s" % (s.get("mode", "a"), path))
        absorb_unknown(w, path)
    if fm is not None and "C19" in w.props:
        verify_file(w, path, "append_keeps", "C19", "after a refused %s" % kind)
    return "rejected:" + type(raised).__name__ if raised is not None else "accepted!"


def x_open(w, s):
    path, mode, hid = s["path"], s["mode"], s["hid"]
    if hid in w.handles or any(p == path for (p, m, h) in w.handles.values()):
        raise Skip("handle")
    fm = w.files.get(path)
    if mode != "w" and fm is None:
        raise Skip("missing")
    kw = {"format": w.cfg["format"]} if mode == "w" else {}
    h = w.da.open_nc(path, mode=mode, **kw)
    if mode == "w":
        w.files[path] = RefFile(w.cfg["format"])
    w.handles[hid] = (path, mode, h)
    w.count("c19:handle_open_" + mode)
    return "ok"


def _handle(w, s, need_write=False):
    if s["hid"] not in w.handles:
        raise Skip("handle")
    path, mode, h = w.handles[s["hid"]]
    if need_write and mode == "r":
        raise Skip("read-only")
    if path not in w.files:
        raise Skip("file gone")
    return path, mode, h, w.files[path]


def x_h_close(w, s):
    path, mode, h, fm = _handle(w, s) if s["hid"] in w.handles and w.handles[s["hid"]][0] in w.files else (None, None, None, None)
    if h is None:
        if s["hid"] in w.handles:
            try:
                w.handles[s["hid"]][2].close()
            except Exception:
                pass
            del w.handles[s["hid"]]
            return "ok"
        raise Skip("handle")
    h.close()
    del w.handles[s["hid"]]
    if "C19" in w.props:
        verify_file(w, path, "rt_equal", "C19", "after closing the handle")
    return "ok"


def x_h_set(w, s):
    path, mode, h, fm = _handle(w, s, True)
    name = s["name"]
    a = V.build_array(s["arr"])
    if name in fm.vars or name in fm.dims:
        raise Skip("name")
    for i, d in enumerate(a.dims):
        if d in fm.dims and (fm.dims[d]["labels"] is None or fm.dims[d]["unknown"] or fm.dims[d]["unlimited"]
                             or not _same_labels(fm.dims[d]["labels"], s["arr"]["labels"][i])):
            raise Skip("stale spec")
    before = V.snap(a)
    try:
        h[name] = a
    except Exception as e:
        absorb_unknown(w, path)
        if "C19" in w.props:
            raise Violation("C19", "write_raises", "open_nc(...)[%r] = array raises %s: %s" % (name, type(e).__name__, str(e)[:200]))
        return "raise:" + type(e).__name__
    if V.snap(a) != before:
        operand_violation(w, "handle[name] = array changed the array")
    fm.add_array(name, a)
    w.n_writes += 1
    w.count("c19:handle_set")
    if "C19" in w.props:
        got = h[name].read()
        compare_array(w, got, fm, name, "rt_equal", "C19", "reading %r back through the writing handle" % name)
        w.n_reads += 1
    return "ok"


def x_h_axes_append(w, s):
    from dimarray import Axis
    path, mode, h, fm = _handle(w, s, True)
    d = s["name"]
    if d in fm.dims or d in fm.vars:
        raise Skip("name")
    labs = V.label_array(s["labels"])
    if s["form"] == "axis":
        h.axes.append(Axis(labs, d))
    else:
        h.axes.append((d, labs))
    fm.dims[d] = {"labels": list(s["labels"]), "attrs": {}, "unlimited": False, "unknown": False}
    w.count("c19:handle_axes_append")
    return "ok"


def x_h_meta(w, s):
    path, mode, h, fm = _handle(w, s, True)
    level, nm, val = s["level"], s["name"], V._deepcopy_json(s["value"])
    if level == "ds":
        setattr(h, nm, val)
        fm.attrs[nm] = val
    elif level == "var":
        if s["target"] not in fm.vars or fm.vars[s["target"]]["unknown"]:
            raise Skip("var")
        setattr(h[s["target"]], nm, val)
        fm.vars[s["target"]]["attrs"][nm] = val
    else:
        d = s["target"]
        if d not in fm.dims or fm.dims[d]["labels"] is None or fm.dims[d]["unknown"]:
            raise Skip("axis")
        setattr(h.axes[d], nm, val)
        fm.dims[d]["attrs"][nm] = val
    w.count("c19:handle_meta_" + level)
    return "ok"


def x_read(w, s):
    path, how = s["path"], s["how"]
    fm = w.files.get(path)
    if fm is None:
        raise Skip("missing")
    prop = _prop(w, "C19")
    check = "C19" in w.props
    what = "%s(%s)" % (how, path)
    try:
        if how == "read_nc":
            ds = w.da.read_nc(path)
        elif how == "open_read":
            with w.da.open_nc(path) as h:
                ds = h.read()
        elif how == "nc_handle":
            h = w.da.open_nc(path)
            try:
                ds = w.da.read_nc(h.nc)            # an open netCDF handle instead of a file name ...
                again = h.read()                   # ... which stays the caller's: still open afterwards
                if check:
                    compare_dataset(w, again, fm, "rt_equal", "C19", "the handle given to read_nc, used again")
            finally:
                try:
                    h.close()
                except Exception:
                    pass
        elif how == "var":
            if s["name"] not in fm.vars or fm.vars[s["name"]]["unknown"]:
                raise Skip("var")
            got = w.da.read_nc(path, s["name"])
            ds = None
        elif how == "handle_var":
            if s["name"] not in fm.vars or fm.vars[s["name"]]["unknown"]:
                raise Skip("var")
            with w.da.open_nc(path) as h:
                got = h[s["name"]].read() if s["name"] != "" else None
                got2 = h[s["name"]][()]
            ds = None
        else:
            names = [n for n in s["names"] if n in fm.vars and not fm.vars[n]["unknown"]]
            if not names:
                raise Skip("names")
            ds = w.da.read_nc(path, names)
    except Skip:
        raise
    except Exception as e:
        if s.get("recovery") and w.props:
            raise Violation("C20" if "C20" in w.props else "C19", "fault_recovery", "after the faults stopped and the file was rewritten, %s still raises %s: %s" % (what, type(e).__name__, str(e)[:200]))
        if check:
            raise Violation("C19", "rt_equal", "%s raises %s: %s" % (what, type(e).__name__, str(e)[:200]))
        return "raise:" + type(e).__name__
    w.n_reads += 1
    if not check:
        return "ok"
    if ds is None:
        if not isinstance(got, w.da.DimArray):
            got = w.da.DimArray(got)
        compare_array(w, got, fm, s["name"], "rt_equal", "C19", what)
        if how == "handle_var":
            if not isinstance(got2, w.da.DimArray):
                got2 = w.da.DimArray(got2)
            compare_array(w, got2, fm, s["name"], "rt_equal", "C19", what + "[()]")
    else:
        compare_dataset(w, ds, fm, "rt_equal", "C19", what, names=None if how in ("read_nc", "open_read", "nc_handle") else names)
    w.count("c19:read_" + how)
    return "ok"


def x_json_rt(w, s):
    from dimarray import DimArray
    a = V.build_array(s["arr"])
    if s.get("null_meta"):
        a.attrs[s["null_meta"]] = None       # JSON null is JSON-representable metadata
    before = V.snap(a)
    try:
        txt = a.to_json()
        b = DimArray.from_json(txt)
    except Exception as e:
        if "C19" in w.props:
            raise Violation("C19", "json_rt", "from_json(to_json(a)) raises %s: %s" % (type(e).__name__, str(e)[:200]))
        return "raise:" + type(e).__name__
    if V.snap(a) != before:
        operand_violation(w, "to_json changed the array")
    if "C19" in w.props:
        d = V.diff_arrays(a, b, rtol=0, attrs=False, dtype="none", kind=False)
        if d:
            raise Violation("C19", "json_rt", "from_json(to_json(a)): %s" % d)
        if a.values.dtype.kind != b.values.dtype.kind and not (a.values.dtype.kind == "O" and b.values.dtype.kind == "U") and a.size:
            raise Violation("C19", "json_rt", "from_json(to_json(a)): values dtype kind %s -> %s" % (a.values.dtype.kind, b.values.dtype.kind))
        want = {}
        for k, v in a.attrs.items():
            try:
                json.dumps(v)
                want[k] = v
            except Exception:
                pass
        if V.norm_loose(dict(b.attrs)) != V.norm_loose(want):
            raise Violation("C19", "json_rt", "from_json(to_json(a)): metadata %r, expected %r" % (dict(b.attrs), want))
        w.n_reads += 1
        w.n_writes += 1
        w.count("c19:json_roundtrip")
    return "ok"


def x_rewrite(w, s):
    src, dst = s["src"], s["dst"]
    fm = w.files.get(src)
    if fm is None or src == dst:
        raise Skip("file")
    if any(p in (src, dst) for (p, m, h) in w.handles.values()):
        raise Skip("busy")
    if fm.attrs_unknown or any(v["unknown"] or v.get("has_missing") for v in fm.vars.values()) \
            or any(d["unknown"] or d["unlimited"] or d["labels"] is None for d in fm.dims.values()):
        raise Skip("the source must be fully known")
    if any(d not in [x for v in fm.vars.values() for x in v["dims"]] for d in fm.dims):
        raise Skip("a dimension no variable uses does not come back through read_nc")
    try:
        ds = w.da.read_nc(src)
        ds.write_nc(dst, mode="w", **_fmt(w, s))
    except Exception as e:
        absorb_unknown(w, dst)
        if "C19" in w.props:
            raise Violation("C19", "write_raises", "writing what read_nc(%s) returned into %s raises %s: %s" % (src, dst, type(e).__name__, str(e)[:200]))
        return "raise:" + type(e).__name__
    finally:
        finalize_leaks(w)
    w.files[dst] = _copy.deepcopy(fm)
    w.files[dst].format = w.cfg["format"] if w.cfg.get("explicit_format") else w.files[dst].format
    w.n_writes += 1
    w.count("c19:rewrite_second_generation")
    if "C19" in w.props:
        verify_file(w, dst, "rt_equal", "C19", "after writing what read_nc(%s) returned" % src)
    return "ok"


STEPS = {"rewrite": x_rewrite, "ds_write": x_ds_write, "arr_write": x_arr_write, "reject": x_reject, "open": x_open, "h_close": x_h_close,
         "h_set": x_h_set, "h_axes_append": x_h_axes_append, "h_meta": x_h_meta, "read": x_read, "json_rt": x_json_rt}
