"""DatasetWorld: Dataset mutation histories against a reference model (C13) and Dataset-wide
operations against the per-variable DimArray operation (C14).

Rejected assignments are the fault of this world: they are *enumerated* (every template at every
position of a short base history in the thorough tier, a seeded sample in the quick tier) and each
must be a complete no-op (observable state and object identities).
"""
import copy as _copy
import itertools
import os
import json
import random
import numpy as np

from dsim.kernel import Violation, h64
from dsim import values as V
from dsim.worlds.arrays import Skip, dec_index, gen_label_index, gen_pos_index

KEYS = ["a", "b", "c", "d"]
DIMS = ["x", "y", "z", "t"]
NEW_NAMES = ["p", "q", "r", "s", "m", "n"]
ODD_DIMS = ["x0", "X", "lat lon", "\u00e9"]              # legal, comma-free, unusual names (8 % of the runs)
ODD_NEW = ["P q", "Q", "r.1", "\u00df", "xx", "n0"]


def dataset_cfg(rng, tier, prop):
    ndims = rng.randint(2, 4)
    dims = DIMS[:ndims]
    kinds = {d: rng.choice(V.LABEL_KINDS) for d in dims + NEW_NAMES + DIMS + ODD_DIMS + ODD_NEW}
    mode = rng.choice(["enum", "enum", "random"]) if prop == "C13" else "random"
    if prop == "C15":
        prop = "C14"   # same histories as C14: mutations interleaved with Dataset-wide operations
    cfg = {"world": "dataset", "dim_names": dims, "dim_kind": kinds, "max_rank": min(3, ndims), "max_len": rng.randint(1, 4),
           "min_len": rng.choice([0, 1, 1, 2]), "orders": sorted(rng.sample(V.ORDERS, rng.randint(1, 3))),
           "label_kinds": V.LABEL_KINDS, "dtypes": rng.choice([["f8"], ["f8", "i8"], ["f8", "i8", "b1"], ["f8", "i8", "O"], ["f8", "f4", "i4"]]),
           "nan_rate": rng.choice([0.0, 0.2]), "meta_density": rng.choice([0.0, 0.6, 1.0]), "mutable_meta": False,
           "mode": mode, "start": rng.choice(["empty", "ctor", "ctor", "ctor_diff"]),
           "op_rate": {"C13": 0.0, "C14": rng.choice([0.3, 0.5, 0.7])}[prop],
           "reject_rate": rng.choice([0.1, 0.25]) if prop == "C13" else 0.0,
           # the Dataset constructor joins outer whatever the global default of align() is
           "align_join": rng.choice(["outer", "outer", "outer", "inner"])}
    if rng.random() < 0.06:
        cfg["max_len"], cfg["max_rank"], cfg["big"] = rng.choice([rng.randint(6, 24)] * 4 + [rng.randint(101, 130)]), min(cfg["max_rank"], 2), True
    if rng.random() < 0.1:
        k, v = rng.choice([["op.reindex", False], ["op.broadcast", False], ["indexing.broadcast", False], ["display.max", 2]])
        cfg["options"] = {k: v}
    if rng.random() < 0.08:
        cfg["dim_names"] = ODD_DIMS[:ndims]
        cfg["odd_names"] = True
    cfg["min_len"] = min(cfg["min_len"], cfg["max_len"])
    if mode == "enum":
        cfg["n_base"] = rng.randint(2, 8)
        cfg["exhaustive"] = tier == "thorough" and rng.random() < 0.5
        cfg["sample_per_pos"] = 6 if tier == "quick" else 20
        cfg["n_steps"] = 100000
        if cfg.get("big"):
            # every template at every position on 100-label axes would take minutes per run: big runs sample, on axes of 24 at most
            cfg["exhaustive"] = False
            cfg["sample_per_pos"] = 4
            cfg["max_len"] = min(cfg["max_len"], 24)
    else:
        cfg["n_steps"] = rng.randint(4, 25 if tier == "quick" else 45)
    return cfg


# --------------------------------------------------------------------------------- reference model

class RefDataset(object):
    """What the property's sentences say a Dataset contains after a history."""

    def __init__(self):
        self.vars = {}      # key -> {"dims": [...], "values": ndarray, "attrs": dict}   (insertion ordered)
        self.dims = {}      # dim -> {"labels": list, "attrs": dict}                     (insertion ordered)
        self.unused = set() # appended directly, never used by a variable
        self.attrs = {}

    def clone(self):
        return _copy.deepcopy(self)

    def used(self):
        u = []
        for v in self.vars.values():
            for d in v["dims"]:
                if d not in u:
                    u.append(d)
        return u

    def accepts(self, spec):
        for d, labs in zip(spec["dims"], spec["labels"]):
            if d in self.dims and not labels_equal(self.dims[d]["labels"], labs):
                return False
        return True

    def setitem(self, key, spec):
        old = self.vars.get(key)
        for i, (d, labs) in enumerate(zip(spec["dims"], spec["labels"])):
            if d not in self.dims:
                self.dims[d] = {"labels": list(labs), "attrs": dict(V._deepcopy_json((spec.get("axattrs") or [{}] * len(spec["dims"]))[i]))}
            self.unused.discard(d)
        self.vars[key] = {"dims": list(spec["dims"]), "values": V.values_array(spec),
                          "attrs": V._deepcopy_json(spec.get("attrs", {}))}
        if old is not None:
            self._cleanup(old["dims"])

    def delitem(self, key):
        old = self.vars.pop(key)
        self._cleanup(old["dims"])

    def _cleanup(self, dims):
        used = self.used()
        for d in dims:
            if d not in used and d in self.dims and d not in self.unused:
                del self.dims[d]

    def rename_dim(self, old, new):
        self.dims = {(new if d == old else d): v for d, v in self.dims.items()}
        if old in self.unused:
            self.unused.discard(old)
            self.unused.add(new)
        for v in self.vars.values():
            v["dims"] = [new if d == old else d for d in v["dims"]]

    def relabel(self, dim, labels):
        self.dims[dim]["labels"] = list(labels)

    def rename_key(self, old, new):
        self.vars = {(new if k == old else k): v for k, v in self.vars.items()}

    def array(self, key, like=None):
        """A fresh, independent DimArray for one variable of the model.

        `like`: the real dataset; label arrays are then independent copies of its (value-equal) label
        arrays, so that the label dtype - which the model does not track - is the same on both sides."""
        from dimarray import DimArray, Axis
        v = self.vars[key]
        axes = []
        for d in v["dims"]:
            labs = V.label_array(self.dims[d]["labels"])
            if like is not None and d in like.dims:
                real = like.axes[d].values
                if _labels_same(py_labels(real), self.dims[d]["labels"]):
                    labs = np.array(real, copy=True)
            ax = Axis(labs, d)
            if like is not None and d in like.dims and getattr(like.axes[d], "tol", None) is not None:
                ax.tol = like.axes[d].tol        # a look-up tolerance set on the dataset's axis belongs to the variable's axis too
            ax.attrs.update(_copy.deepcopy(self.dims[d]["attrs"]))
            axes.append(ax)
        a = DimArray(np.array(v["values"], copy=True), axes)
        a.attrs.update(_copy.deepcopy(v["attrs"]))
        return a


def _kind_of(labs, default=None):
    if not labs:
        return default
    if isinstance(labs[0], str):
        return "str"
    return "float" if isinstance(labs[0], float) else "int"


def labels_equal(a, b):
    """Axis.__eq__ on labels: same length, element-wise equal."""
    if len(a) != len(b):
        return False
    for x, y in zip(a, b):
        if isinstance(x, str) != isinstance(y, str):
            return False
        if x != y:
            return False
    return True


def py_labels(vals):
    out = []
    for v in np.asarray(vals).tolist():
        out.append(v)
    return out


# --------------------------------------------------------------------------------- the world

class DatasetWorld(object):
    name = "DatasetWorld"

    def __init__(self, cfg, props):
        import dimarray
        self.da = dimarray
        from dsim.worlds.arrays import install_init_monitor
        install_init_monitor()
        for k, v in (("indexing.by", "label"), ("indexing.broadcast", True), ("op.broadcast", True),
                     ("op.reindex", True), ("align.join", cfg.get("align_join", "outer"))):
            dimarray.rcParams[k] = v
        for k, v in sorted(cfg.get("options", {}).items()):
            dimarray.rcParams[k] = v
        self.cfg = cfg
        self.new_names = list(ODD_NEW if cfg.get("odd_names") else NEW_NAMES)
        self.base_names = list(ODD_DIMS if cfg.get("odd_names") else DIMS)
        self.props = set(props)
        self.donors = []      # arrays handed to the dataset (C15: later changes of the dataset must not reach them)
        self.last_dsop = None
        self.extracted = []   # variables taken out of the dataset earlier (v = ds[k]) and possibly assigned again later
        self.ds = None
        self.model = None
        self.counts = []
        self.n_mut = 0
        self.n_rej = 0
        self.n_ops = 0
        self.n_ops_multi = 0
        self.queue = []
        self.base_left = cfg.get("n_base", 0)
        self.started = False
        self.mutated_since_dsop = False
        if cfg.get("mode") == "enum":
            self.queue.append({"op": "_enum_marker"})

    def count(self, k):
        self.counts.append(k)

    def pop_counts(self):
        c, self.counts = self.counts, []
        return c

    def summary(self):
        nontrivial = (self.n_mut >= 2 and self.n_rej >= 1) if "C13" in self.props else (self.n_ops_multi >= 1 if "C14" in self.props else self.n_ops >= 1)
        return {"mutations": self.n_mut, "rejected": self.n_rej, "ds_ops": self.n_ops, "nontrivial": nontrivial}

    def finish(self):
        pass

    def close(self):
        self.da.rcParams["align.join"] = "outer"

    def state_key(self):
        if self.ds is None:
            return "none"
        return "%016x" % h64(repr(V.snap_dataset(self.ds)))

    # ------------------------------------------------------------------ generation
    def gen_step(self, rng):
        for _ in range(6):
            try:
                return self._gen_step(rng)
            except (IndexError, ValueError, KeyError, Skip):
                continue        # a generator met a state it has no candidate for (empty choice): draw again
        return {"op": "meta", "name": "title", "value": "t1"}

    def _gen_step(self, rng):
        cfg = self.cfg
        if getattr(self, "dead", False):
            return None
        if not self.started:
            self.started = True
            return self._gen_start(rng)
        if self.queue:
            head = self.queue.pop(0)
            if head.get("op") == "_enum_marker":
                # the previous base step has been executed: enumerate the rejected assignments for this position
                self.queue = self.expand_marker(rng) + self.queue
                return self._gen_step(rng)
            return head
        if cfg["mode"] == "enum":
            if self.base_left <= 0:
                return None
            self.base_left -= 1
            st = self._gen_mutation(rng)
            self.queue.append({"op": "_enum_marker"})
            return st
        r = rng.random()
        if r < cfg["reject_rate"]:
            st = self._gen_reject(rng, None)
            if st is not None:
                return st
        if r < cfg["reject_rate"] + cfg["op_rate"] and self.model.vars:
            if self.last_dsop is not None and self.mutated_since_dsop and rng.random() < 0.3:
                # the very same operation again after the dataset was mutated: stale per-instance caches show here
                st = dict(self.last_dsop)
                st["adopt"] = False
                st["repeat"] = True
                return st
            st = self._gen_dsop(rng)
            if st is not None:
                return st
        return self._gen_mutation(rng)

    def expand_marker(self, rng):
        """Called by exec_step when it meets the enumeration marker: queue the rejected assignments for this position."""
        templates = self.feasible_templates()
        self.count("c13:enum_positions" + ("_all_templates" if self.cfg.get("exhaustive") else "_sampled_templates"))
        if not self.cfg.get("exhaustive"):
            rng2 = rng
            k = min(len(templates), self.cfg.get("sample_per_pos", 6))
            templates = rng2.sample(templates, k) if templates else []
        steps = []
        for t in templates:
            st = self._gen_reject(rng, t)
            if st is not None:
                steps.append(st)
        return steps

    def _spec(self, rng, dims=None, dtype=None):
        """An array spec that agrees with the model on every dimension the model has."""
        cfg = self.cfg
        m = self.model
        if dims is None:
            universe = cfg["dim_names"] + [d for d in m.dims if d not in cfg["dim_names"]]
            k = rng.randint(0, min(cfg["max_rank"], len(universe)))
            dims = rng.sample(universe, k)
        labels = []
        for d in dims:
            if m is not None and d in m.dims:
                labels.append(list(m.dims[d]["labels"]))
            else:
                labels.append(V.gen_labels(rng, rng.randint(cfg["min_len"], cfg["max_len"]), cfg["dim_kind"].get(d), rng.choice(cfg["orders"])))
        return V.gen_array_spec(rng, cfg, dims=list(dims), labels=labels, dtype=dtype)

    def _gen_start(self, rng):
        how = self.cfg["start"]
        if how == "empty":
            return {"op": "new", "how": "empty"}
        self.model = RefDataset()  # provisional, for _spec
        saved_min = self.cfg["min_len"]
        if how == "ctor_diff":
            # aligning an empty axis with a non-empty one is reindexing territory (C07), not asserted here
            self.cfg["min_len"] = max(1, saved_min)
        try:
            return self._gen_start_specs(rng, how)
        finally:
            self.cfg["min_len"] = saved_min
            self.model = None

    def _gen_start_specs(self, rng, how):
        n = rng.randint(1, 3)
        keys = rng.sample(KEYS, n)
        specs = []
        shared = {}
        for k in keys:
            sp = self._spec(rng)
            for i, d in enumerate(sp["dims"]):
                if d in shared:
                    r = rng.random()
                    if how == "ctor_diff" and r < 0.55:
                        kind = self.cfg["dim_kind"].get(d)
                        if kind in ("int", "float") and rng.random() < 0.2:
                            kind = "float" if kind == "int" else "int"      # integer labels meet float labels in the join
                        labs = V.gen_labels(rng, rng.randint(max(1, self.cfg["min_len"]), self.cfg["max_len"]), kind, rng.choice(self.cfg["orders"]))
                    elif how == "ctor_diff" and r < 0.8 and len(shared[d]) >= 2:
                        # the same labels in another order (same ends when long enough): still to be aligned
                        labs = list(shared[d])
                        if len(labs) >= 4 and rng.random() < 0.6:
                            mid = labs[1:-1]
                            while mid == labs[1:-1]:
                                rng.shuffle(mid)
                            labs = [labs[0]] + mid + [labs[-1]]
                        else:
                            while labs == shared[d]:
                                rng.shuffle(labs)
                    else:
                        labs = shared[d]
                    sp = V.gen_array_spec(rng, self.cfg, dims=sp["dims"], labels=[labs if j == i else l for j, l in enumerate(sp["labels"])], dtype=sp["dtype"])
                else:
                    shared[d] = sp["labels"][i]
            specs.append(sp)
        return {"op": "new", "how": "ctor", "keys": keys, "specs": specs, "form": rng.choice(["kw", "dict", "pairs", "kw", "dict", "pairs", "ds_plus_kw", "dict_plus_kw"])}

    def _gen_mutation(self, rng):
        m = self.model
        dims = list(m.dims)
        keys = list(m.vars)
        choices = ["set", "set", "set"]
        if keys:
            choices += ["del", "rename_keys", "replace", "set_raw"]
        if dims:
            choices += ["rename", "rename", "relabel", "relabel", "axes_setitem", "axes_setitem"]
        choices += ["append_axis", "meta"]
        if dims:
            choices += ["query", "query", "axes_assign", "fork_copy"]
        if keys:
            choices += ["extract"]
        if dims:
            choices += ["set_tol"]
        if self.extracted or getattr(self, "n_extract_gen", 0):
            choices += ["reassign", "reassign"]
        what = rng.choice(choices)
        if what == "set_tol":
            num = [d for d in dims if m.dims[d]["labels"] and not isinstance(m.dims[d]["labels"][0], str)]
            if not num:
                return self._gen_mutation(rng)
            return {"op": "set_tol", "dim": rng.choice(num), "tol": rng.choice([0.25, 1e-3, 2.0]), "via": rng.choice(["attr", "set_axis"])}
        if what == "extract":
            self.n_extract_gen = getattr(self, "n_extract_gen", 0) + 1
            return {"op": "extract", "key": rng.choice(keys), "copy": rng.random() < 0.4}
        if what == "reassign":
            free = [k for k in KEYS + ["e", "f"] if k not in keys]
            return {"op": "reassign", "slot": rng.randrange(2), "key": rng.choice(free) if (free and rng.random() < 0.7) or not keys else rng.choice(keys)}
        if what == "query":
            # reads that populate caches (monotonicity flag, repr); the model does not move
            return {"op": "query", "what": rng.choice(["mono", "mono", "repr", "var_mono"]), "dim": rng.choice(dims)}
        if what in ("set", "replace"):
            key = rng.choice(keys) if what == "replace" else rng.choice(KEYS)
            if what != "replace" and dims and rng.random() < 0.06:
                key = rng.choice(dims)      # a variable named like a dimension is a variable like any other
            # the same assignment spelled through the mutators Dataset inherits from dict
            via = rng.choice(["setitem"] * 5 + ["update_dict", "update_kw", "update_pairs", "ior", "setdefault"])
            return {"op": "set", "key": key, "spec": self._spec(rng), "via": via}
        if what == "axes_assign":
            # ds.axes = [Axis, ...]: relabels the existing dimensions named, appends the others
            k = rng.randint(1, min(2, len(dims)))
            chosen = rng.sample(dims, k)
            items = []
            for d in chosen:
                labs = m.dims[d]["labels"]
                new = V.gen_labels(rng, len(labs), _kind_of(labs, self.cfg["dim_kind"].get(d)))
                if len(new) != len(labs):
                    return self._gen_mutation(rng)
                items.append([d, new])
            free = [n for n in self.new_names if n not in dims]
            if free and rng.random() < 0.4:
                n = rng.choice(free)
                items.append([n, V.gen_labels(rng, rng.randint(max(1, self.cfg["min_len"]), self.cfg["max_len"]), self.cfg["dim_kind"].get(n))])
            st = {"op": "axes_assign", "items": items}
            if len(items) >= 2 and rng.random() < 0.25:
                # the last axis does not fit: the request must fail, and whatever it did before failing must leave
                # the dataset and its variables sharing their axes
                d_, labs_ = items[-1]
                if d_ in m.dims and len(labs_) >= 1:
                    items[-1] = [d_, labs_[:-1]]
                    st["illfit"] = True
            return st
        if what == "fork_copy":
            return {"op": "fork_copy", "how": rng.choice(["copy", "rename_keys", "rename_axes", "set_axis"]), "continue_on": rng.choice(["copy", "original"])}
        if what == "set_raw":
            return {"op": "set_raw", "key": rng.choice(KEYS), "value": rng.choice([3, 2.5])}
        if what == "del":
            return {"op": "del", "key": rng.choice(keys), "via": rng.choice(["del"] * 5 + ["pop", "pop", "popitem", "clear"])}
        if what == "rename_keys":
            old = rng.choice(keys)
            free = [k for k in KEYS + ["e", "f", "g", "h", "i", "j"] if k not in keys]
            if not free:
                return self._gen_mutation(rng)
            return {"op": "rename_keys", "old": old, "new": rng.choice(free), "form": rng.choice(["dict", "fn"])}
        if what == "rename" and len(dims) >= 2 and rng.random() < 0.3:
            # bulk rename through ds.dims = (...): any tuple of distinct names, in particular permutations of the current ones
            free = [n for n in self.new_names + self.base_names if n not in dims]
            pool_ = list(dims) + free[:2]
            new = rng.sample(pool_, len(dims))
            if new != list(dims):
                return {"op": "rename_bulk", "old": list(dims), "new": new}
        if what == "rename":
            d = rng.choice(dims)
            free = [n for n in self.new_names + self.base_names if n not in dims]
            if not free:
                return self._gen_mutation(rng)
            route = rng.choice(["ax_name", "ax_name_pos", "dims", "set_axis", "rename_axes_dict", "rename_axes_fn",
                                "var_ax_name", "var_set_axis", "var_dims"])
            st = {"op": "rename", "dim": d, "new": rng.choice(free), "route": route}
            if route.startswith("var_"):
                users = [k for k in keys if d in m.vars[k]["dims"]]
                if not users:
                    st["route"] = "ax_name"
                else:
                    st["key"] = rng.choice(users)
            return st
        if what == "relabel":
            d = rng.choice(dims)
            labs = m.dims[d]["labels"]
            if not labs:
                return self._gen_mutation(rng)
            route = rng.choice(["ax_item", "ax_values", "set_axis", "attr", "set_axis_dict", "var_ax_item", "var_set_axis",
                                "var_attr", "var_labels", "set_axis_fn", "var_set_axis_fn"])
            if route.endswith("_fn"):
                if isinstance(labs[0], str):
                    route = route.replace("_fn", "")
                else:
                    add = rng.choice([100, -50, 0.5])
                    st0 = {"op": "relabel", "dim": d, "route": route, "add": add, "new": [x + add for x in labs]}
                    if route.startswith("var_"):
                        users = [k for k in keys if d in m.vars[k]["dims"]]
                        if not users:
                            st0["route"] = "set_axis_fn"
                        else:
                            st0["key"] = rng.choice(users)
                    return st0
            st = {"op": "relabel", "dim": d, "route": route}
            if route.startswith("var_"):
                users = [k for k in keys if d in m.vars[k]["dims"]]
                if not users:
                    st["route"] = route = "ax_values"
                else:
                    st["key"] = rng.choice(users)
            new = V.gen_labels(rng, len(labs), _kind_of(labs, self.cfg["dim_kind"].get(d)))
            if len(new) != len(labs):
                return self._gen_mutation(rng)
            if route in ("ax_item", "var_ax_item", "set_axis_dict"):
                # one label changes, within the kind of the axis (an axis holds labels of one kind)
                cand = [x for x in new + ["zz" if isinstance(labs[0], str) else (97.5 if isinstance(labs[0], float) else 97)] if x not in labs]
                if not cand:
                    return self._gen_mutation(rng)
                i = rng.randrange(len(labs))
                new = list(labs)
                new[i] = cand[0]
                st["i"] = i
            st["new"] = new
            return st
        if what == "axes_setitem":
            d = rng.choice(dims)
            labs = m.dims[d]["labels"]
            new = V.gen_labels(rng, len(labs), _kind_of(labs, self.cfg["dim_kind"].get(d)) if rng.random() < 0.8 else None)
            if len(new) != len(labs):
                return self._gen_mutation(rng)
            st = {"op": "axes_setitem", "dim": d, "by_pos": rng.random() < 0.5, "new": new,
                  "as": rng.choice(["axis", "axis", "list"])}
            if st["as"] == "axis" and new and not isinstance(new[0], str) and rng.random() < 0.15:
                st["objdtype"] = True       # numbers held in an object array: still "any label kind"
            if st["as"] == "axis" and rng.random() < 0.25:
                free = [n for n in self.new_names if n not in dims]
                if free:
                    st["newname"] = rng.choice(free)
            return st
        if what == "append_axis":
            free = [n for n in self.new_names + self.base_names if n not in dims]
            if not free:
                return self._gen_mutation(rng)
            n = rng.choice(free)
            return {"op": "append_axis", "name": n,
                    "labels": V.gen_labels(rng, rng.randint(self.cfg["min_len"], self.cfg["max_len"]), self.cfg["dim_kind"].get(n))}
        return {"op": "meta", "name": rng.choice(["title", "source", "_hidden", "title"]), "value": rng.choice(["t1", 3, [1, 2]])}

    # -- rejection templates ---------------------------------------------------------------
    MISMATCH = ["one_label", "order", "length", "kind"]

    def feasible_templates(self):
        m = self.model
        existing = list(m.dims)
        out = []
        if not existing:
            return out
        for k in (1, 2, 3):
            for j in range(k):
                for others in itertools.product(["exist", "new"], repeat=k - 1):
                    if others.count("exist") + 1 > len(existing):
                        continue
                    for keymode in ("new", "existing"):
                        if keymode == "existing" and not m.vars:
                            continue
                        for kind in self.MISMATCH:
                            out.append({"k": k, "j": j, "others": list(others), "key": keymode, "kind": kind})
        return out

    def _gen_reject(self, rng, t):
        m = self.model
        existing = list(m.dims)
        if not existing:
            return None
        if t is None:
            ts = self.feasible_templates()
            if not ts:
                return None
            t = rng.choice(ts)
        pool_exist = list(existing)
        rng.shuffle(pool_exist)
        bad_dim = pool_exist.pop()
        base = m.dims[bad_dim]["labels"]
        kind = t["kind"]
        if kind == "order" and len(base) < 2:
            kind = "length"
        if kind == "one_label" and len(base) < 1:
            kind = "length"
        if kind == "one_label":
            bad = list(base)
            alt = [x for x in (V.gen_labels(rng, 6, _kind_of(base)) + ([98.5] if not isinstance(base[0], str) else ["zq"])) if x not in base]
            i = rng.randrange(len(bad))
            if not isinstance(base[0], str) and rng.random() < 0.3:
                # a label that differs only a little still disagrees
                if rng.random() < 0.4:
                    bad[i] = float(np.nextafter(float(bad[i]), float(bad[i]) + 1.0))     # the very next double
                else:
                    bad[i] = float(bad[i]) + rng.choice([1e-7, -1e-7, 1e-3]) * max(1.0, abs(float(bad[i])))
                self.count("c13:reject_near_label")
            else:
                bad[i] = alt[0]
        elif kind == "order":
            bad = list(base)
            i = rng.randrange(len(bad) - 1)
            bad[i], bad[i + 1] = bad[i + 1], bad[i]
        elif kind == "length":
            bad = list(base)
            if bad and rng.random() < 0.5:
                bad.pop()
            else:
                bad.append("zq" if (bad and isinstance(bad[0], str)) else 98.5)
        else:
            bad = ["k%d" % i for i in range(len(base))] if not (base and isinstance(base[0], str)) else list(range(len(base)))
            if not bad:
                bad = ["k0"]
        dims, labels = [], []
        newnames = [n for n in self.new_names + self.base_names if n not in existing]
        rng.shuffle(newnames)
        oth = list(t["others"])
        for pos in range(t["k"]):
            if pos == t["j"]:
                dims.append(bad_dim)
                labels.append(bad)
            else:
                o = oth.pop(0)
                if o == "exist" and pool_exist:
                    d = pool_exist.pop()
                    dims.append(d)
                    labels.append(list(m.dims[d]["labels"]))
                else:
                    if not newnames:
                        return None
                    d = newnames.pop()
                    dims.append(d)
                    labels.append(V.gen_labels(rng, rng.randint(1, 3), self.cfg["dim_kind"].get(d)))
        spec = V.gen_array_spec(rng, self.cfg, dims=dims, labels=labels, dtype="f8")
        key = rng.choice(list(m.vars)) if (t["key"] == "existing" and m.vars) else rng.choice([k for k in KEYS + ["e", "f", "g", "h"] if k not in m.vars] or ["zz"])
        return {"op": "reject", "key": key, "spec": spec, "template": t, "bad_dim": bad_dim, "kind": kind,
                "via": rng.choice(["setitem"] * 6 + ["update_dict", "update_kw", "setdefault"])}

    # -- Dataset-wide operations (C14) -----------------------------------------------------
    def _gen_dsop(self, rng):
        m = self.model
        dims = list(m.dims)
        what = rng.choice(["take", "take", "index_prop", "reduce", "reduce", "take_axis", "sort_axis", "reindex_axis",
                           "reindex_axis", "interp_axis", "scalar_op", "neg", "ds_op_ds", "stack_ds", "concatenate_ds", "reindex_like"])
        st = {"op": "dsop", "what": what, "adopt": rng.random() < 0.4}
        if what in ("take", "index_prop", "reduce", "take_axis", "sort_axis", "reindex_axis", "interp_axis", "concatenate_ds"):
            if not dims:
                return None
            i = rng.randrange(len(dims))
            d = dims[i]
            labs = m.dims[d]["labels"]
            st["dim"] = d
            st["axis"] = d if rng.random() < 0.7 else i
            if what == "take":
                if not labs:
                    return None
                st["form"] = rng.choice(["axis", "dict", "dict2", "keepdims", "tuple", "keepdims_pos", "axis_pos"])
                st["idx"] = gen_label_index(rng, labs, allow_absent=False)
                if st["form"].endswith("_pos"):
                    st["idx"] = gen_pos_index(rng, len(labs))
                if st["form"] == "dict2" and len(dims) > 1:
                    d2 = rng.choice([x for x in dims if x != d])
                    if m.dims[d2]["labels"]:
                        st["dim2"] = d2
                        st["idx2"] = gen_label_index(rng, m.dims[d2]["labels"], allow_absent=False)
            elif what == "index_prop":
                st["prop"] = rng.choice(["ix", "loc", "iloc", "sel", "isel"])
                if st["prop"] in ("ix", "iloc", "isel"):
                    st["idx"] = gen_pos_index(rng, len(labs))
                else:
                    if not labs:
                        return None
                    st["idx"] = gen_label_index(rng, labs, allow_absent=False)
            elif what == "reduce":
                st["fn"] = rng.choice(["mean", "std", "var", "median", "sum"])
                st["skipna"] = rng.random() < 0.3
                if rng.random() < 0.12:
                    st["axis"] = None           # every variable is reduced over all its dimensions
                elif rng.random() < 0.12:
                    st["direct"], st["fn"], st["keepattrs"] = True, rng.choice(["sum", "mean", "max", "min"]), rng.random() < 0.5
            elif what == "take_axis":
                n = len(labs)
                if n == 0:
                    return None
                if rng.random() < 0.5:
                    st["indexing"] = "position"
                    st["ind"] = [rng.randrange(n) for _ in range(rng.randint(1, 3))]
                    if rng.random() < 0.4:
                        st["mode"] = rng.choice(["clip", "wrap"])
                        st["ind"] = [rng.randint(-n - 2, n + 2) for _ in range(rng.randint(1, 3))]
                else:
                    st["indexing"] = "label"
                    st["ind"] = [rng.choice(labs) for _ in range(rng.randint(1, 3))]
            elif what == "reindex_axis":
                from dsim.worlds.array_ops import _gen_new_labels
                st["values"] = _gen_new_labels(rng, labs)
                if st["values"] and isinstance(st["values"][0], float) and rng.random() < 0.2:
                    i_ = rng.randrange(len(st["values"]))
                    st["values"][i_] = float(np.nextafter(st["values"][i_], st["values"][i_] + 1.0))   # next to a label is not the label
                r = rng.random()
                if r < 0.2:
                    st["fill_value"] = rng.choice([-99, 0, 0.0])
                elif r < 0.3:
                    st["method"] = rng.choice(["left", "right"])
            elif what == "interp_axis":
                if not labs or any(isinstance(x, str) for x in labs):
                    return None
                lo, hi = min(labs), max(labs)
                st["values"] = sorted(set(rng.choice([lo - 1, lo, lo + 0.25, (lo + hi) / 2.0, hi]) for _ in range(rng.randint(1, 3))))
            elif what == "concatenate_ds":
                st["shift"] = rng.choice([100, 200])
                st["align"] = rng.random() < 0.4
                st["secondary_differs"] = rng.random() < 0.5
                st["n"] = rng.randint(2, 3)
                st["which_differs"] = rng.randint(1, 2)
        elif what == "reindex_like":
            used = [d for d in dims if any(d in v["dims"] for v in m.vars.values())]
            if not used:
                return None
            from dsim.worlds.array_ops import _gen_new_labels
            k = rng.randint(1, min(2, len(used)))
            st["targets"] = {d: _gen_new_labels(rng, m.dims[d]["labels"]) for d in rng.sample(used, k) if m.dims[d]["labels"]}
            if not st["targets"]:
                return None
        elif what == "scalar_op":
            st["fn"] = rng.choice(["add", "sub", "mul", "truediv"])
            st["value"] = rng.choice([2, 0.5, -1])
        elif what == "stack_ds":
            st["axis"] = rng.choice([n for n in self.new_names if n not in dims] or ["w"])
            st["n"] = rng.randint(2, 3)
            st["keys"] = V.gen_labels(rng, st["n"], rng.choice(["int", "str"]))
            st["align"] = rng.random() < 0.4
            st["perturb"] = rng.random() < 0.5
            st["secondary_differs"] = rng.random() < 0.4
            st["which_differs"] = rng.randint(1, 2)
        elif what == "neg":
            st["sign"] = rng.choice(["neg", "pos"])
        elif what == "ds_op_ds":
            st["fn"] = rng.choice(["add", "sub", "mul"])
            st["drop_key"] = rng.random() < 0.3
            st["transpose_var"] = rng.random() < 0.3
            st["other_labels"] = rng.random() < 0.35
            if dims and rng.random() < 0.2:
                st["other_reduced"] = {"dim": rng.choice(dims), "fn": rng.choice(["sum", "mean"])}    # ds - ds.mean(axis=d)
        return st

    # ------------------------------------------------------------------ execution
    def exec_step(self, step):
        op = step["op"]
        if op == "_enum_marker":
            # replay files contain the expanded steps, not the marker
            return "ok"
        if (op != "new" and self.ds is None) or getattr(self, "dead", False):
            return "skipped"
        try:
            fn = getattr(self, "x_" + op)
            out = fn(step)
        except Skip:
            return "skipped"
        except Violation:
            raise
        except Exception as e:
            if not raised_in_library(e):
                raise
            # the library refused or broke on a step the model considers legal
            if "C13" in self.props and op != "dsop":
                raise Violation("C13", "ds_mutation_raises", "%s (%s) raised %s: %s" % (
                    op, ", ".join("%s=%r" % kv for kv in sorted(step.items()) if kv[0] not in ("op", "spec")), type(e).__name__, str(e)[:160]))
            self.dead = True      # another property's run: the model cannot follow, the run ends here without a verdict
            self.count("world_stopped_library_raised_in_%s" % op)
            return "raise:" + type(e).__name__
        if "C13" not in self.props and self.ds is not None and op != "dsop":
            try:
                self.check_invariants(self.ds, self.model, "after %s" % op)
            except Violation:
                self.dead = True  # C13's business; here the model has lost track, so the run ends without a verdict
                self.count("world_stopped_model_diverged")
                return out
        if op == "dsop":
            if not step.get("adopt") and not step.get("repeat"):
                self.last_dsop = step
                self.mutated_since_dsop = False
            elif step.get("adopt"):
                self.last_dsop = None
        elif op in ("rename", "rename_bulk", "relabel", "axes_setitem", "set", "del"):
            self.mutated_since_dsop = True
        if "C15" in self.props and self.donors:
            for a, snap0, what in self.donors:
                now = donor_key(a)
                if now != snap0:
                    raise Violation("C15", "operand_changed", "the array handed to %s changed when the dataset was later modified by %s: %s" % (
                        what, op, V.describe_snap_diff(snap0, now)))
        if "C13" in self.props and self.ds is not None and op not in ("dsop",):
            self.check_invariants(self.ds, self.model, "after %s" % op)
            if getattr(self, "ghost", None) is not None and op != "fork_copy":
                self.check_invariants(self.ghost[0], self.ghost[1], "on the other dataset of an earlier inplace=False call, after %s" % op)
        return out

    # called by the kernel through gen_step: expansion of enumeration markers needs the rng
    def gen_step_wrapper(self, rng):
        pass

    def x_new(self, s):
        from dimarray import Dataset
        self.n_mut += 1
        if s["how"] == "empty":
            self.ds = Dataset()
            self.model = RefDataset()
            return "ok"
        arrs = [V.build_array(sp) for sp in s["specs"]]
        before = [V.snap(a) for a in arrs]
        try:
            if s["form"] == "kw":
                ds = Dataset(**dict(zip(s["keys"], arrs)))
            elif s["form"] == "dict":
                ds = Dataset(dict(zip(s["keys"], arrs)))
            elif s["form"] in ("ds_plus_kw", "dict_plus_kw") and len(arrs) >= 2:
                # the first variables come as a Dataset (or dict), the last one as a keyword
                head = dict(zip(s["keys"][:-1], arrs[:-1]))
                ds = Dataset(Dataset(head) if s["form"] == "ds_plus_kw" else head, **{s["keys"][-1]: arrs[-1]})
            elif s["form"] in ("ds_plus_kw", "dict_plus_kw"):
                ds = Dataset(**dict(zip(s["keys"], arrs)))
            else:
                ds = Dataset(list(zip(s["keys"], arrs)))
        except Exception as e:
            if "C13" in self.props:
                raise Violation("C13", "ds_ctor_align", "Dataset(...) of arrays with labels of equal kind raised %s: %s" % (
                    type(e).__name__, str(e)[:150]))
            self.ds, self.model = Dataset(), RefDataset()
            return "raise:" + type(e).__name__
        # model by the order-agnostic outer-join rule
        model = RefDataset()
        union = {}
        for sp in s["specs"]:
            for d, labs in zip(sp["dims"], sp["labels"]):
                u = union.setdefault(d, [])
                for x in labs:
                    if x not in u:
                        u.append(x)
        check = "C13" in self.props
        for d in ds.dims:
            got = py_labels(ds.axes[d].values)
            if check and (d not in union or len(got) != len(union[d])
                          or not all(any(_same_label(g, u) for u in union[d]) for g in got)
                          or not all(any(_same_label(g, u) for g in got) for u in union[d])):
                raise Violation("C13", "ds_ctor_align", "dimension %s: labels %r are not the union %r of the inputs" % (d, got, union.get(d)))
            model.dims[d] = {"labels": got, "attrs": {}}
        if check and set(ds.dims) != set(union):
            raise Violation("C13", "ds_ctor_align", "dims %r != %r" % (ds.dims, sorted(union)))
        differing = False
        for k, sp in zip(s["keys"], s["specs"]):
            src = V.values_array(sp)
            v = dict.__getitem__(ds, k) if k in dict.keys(ds) else None
            if v is None:
                raise Violation("C13", "ds_keys", "key %r missing after construction" % k)
            if check and list(v.dims) != list(sp["dims"]):
                raise Violation("C13", "ds_ctor_align", "variable %s dims %r != %r" % (k, v.dims, sp["dims"]))
            exp = np.full(v.values.shape, np.nan, dtype=float) if src.dtype.kind in "fi" else None
            full_shape = tuple(len(model.dims[d]["labels"]) for d in sp["dims"])
            if full_shape != src.shape:
                differing = True
            if check:
                # every original value sits at its original label coordinate, everything else is missing
                pos = []
                for d, labs in zip(sp["dims"], sp["labels"]):
                    tgt = model.dims[d]["labels"]
                    pos.append([_index_of(tgt, x) for x in labs])
                vals = v.values
                if vals.shape != full_shape:
                    raise Violation("C13", "ds_ctor_align", "variable %s shape %r != %r" % (k, vals.shape, full_shape))
                mask = np.zeros(full_shape, dtype=bool)
                if src.size:
                    ix = np.ix_(*pos) if pos else ()
                    sub = vals[ix] if pos else vals
                    if not V._close(sub, src, 1e-12):
                        raise Violation("C13", "ds_ctor_align", "variable %s: values moved: %r at original coordinates, expected %r" % (k, sub.tolist(), src.tolist()))
                    mask[ix] = True
                if (~mask).any():
                    rest = vals[~mask]
                    if not all(isinstance(x, float) and x != x for x in rest.ravel().tolist()):
                        raise Violation("C13", "ds_ctor_align", "variable %s: cells outside the original labels are not missing: %r" % (k, rest.tolist()))
            model.vars[k] = {"dims": list(sp["dims"]), "values": np.array(v.values, copy=True), "attrs": V._deepcopy_json(sp.get("attrs", {}))}
            for i, d in enumerate(sp["dims"]):
                if not model.dims[d]["attrs"] and sp.get("axattrs"):
                    pass
        # axis attrs: whatever the real dataset reports (not asserted for the constructor)
        for d in ds.dims:
            model.dims[d]["attrs"] = _copy.deepcopy(dict(ds.axes[d].attrs))
        for k in model.vars:
            model.vars[k]["attrs"] = _copy.deepcopy(dict(dict.__getitem__(ds, k).attrs))
        if "C15" in self.props:
            for a, b, k in zip(arrs, before, s["keys"]):
                if V.snap(a) != b:
                    raise Violation("C15", "operand_changed", "Dataset(...) changed input %s" % k)
        if "C15" in self.props:
            self.donors = [(a, donor_key(a), "Dataset(...)") for a in arrs][-3:]
        if differing:
            self.count("c13:ctor_outer_join")
        self.ds, self.model = ds, model
        return "ok"

    # -- accepted mutations ------------------------------------------------------------------
    def x_set(self, s):
        spec = s["spec"]
        if not self.model.accepts(spec):
            raise Skip("would be rejected")
        a = V.build_array(spec)
        a_before = V.snap(a) if "C15" in self.props else None
        via = s.get("via", "setitem")
        if via == "setdefault" and s["key"] in self.model.vars:
            via = "setitem"
        try:
            self._assign(via, s["key"], a)
        except Exception as e:
            if "C13" in self.props:
                raise Violation("C13", "ds_accept", "ds[%r] = array with matching labels raised %s: %s" % (s["key"], type(e).__name__, str(e)[:200]))
            raise Skip("raised")
        if a_before is not None and V.snap(a) != a_before:
            raise Violation("C15", "operand_changed", "ds[%r] = a changed a: %s" % (s["key"], V.describe_snap_diff(a_before, V.snap(a))))
        if "C15" in self.props:
            self.donors = (self.donors + [(a, donor_key(a), "ds[%r] = a" % s["key"])])[-3:]
        self.model.setitem(s["key"], spec)
        self.n_mut += 1
        return "ok"

    def _assign(self, via, key, a):
        ds = self.ds
        self.count("c13:assign_via_" + via)
        if via == "setitem":
            ds[key] = a
        elif via == "update_dict":
            ds.update({key: a})
        elif via == "update_kw":
            ds.update(**{key: a})
        elif via == "update_pairs":
            ds.update([(key, a)])
        elif via == "ior":
            ds |= {key: a}
            if ds is not self.ds:
                raise Violation("C13", "ds_accept", "ds |= {...} rebound ds to a %s" % type(ds).__name__)
        elif via == "setdefault":
            got = ds.setdefault(key, a)
            if got is not dict.__getitem__(ds, key):
                raise Violation("C13", "ds_accept", "ds.setdefault(%r, array) returned something else than the stored variable" % (key,))
        else:
            raise ValueError(via)

    def x_set_tol(self, s):
        """A tolerance on a dataset axis concerns label look-ups, not whether an assigned array's labels agree."""
        d = s["dim"]
        if d not in self.model.dims or d not in self.ds.dims:
            raise Skip("dim")
        if s["via"] == "attr":
            self.ds.axes[d].tol = s["tol"]
        else:
            self.ds.set_axis(axis=d, tol=s["tol"])
        self.count("c13:axis_tol_set")
        return "ok"

    def x_extract(self, s):
        if s["key"] not in self.model.vars:
            raise Skip("key")
        v = self.ds[s["key"]]
        if s.get("copy"):
            v = v.copy()
        self.extracted = (self.extracted + [v])[-2:]
        return "ok"

    def x_reassign(self, s):
        """A variable taken out of this dataset earlier is assigned again: accepted or refused on its labels *now*,
        like any other array (it may have followed the dataset's relabellings, or been left behind by a deleted axis)."""
        if s["slot"] >= len(self.extracted):
            raise Skip("slot")
        v = self.extracted[s["slot"]]
        if len(set(v.dims)) != len(v.dims):
            # a former variable still shares Axis objects with the dataset; a later rename through the dataset can give it
            # the same name twice.  What happens to arrays that left the dataset is not C13's subject.
            self.count("c13:extracted_variable_became_malformed")
            raise Skip("dims")
        labels = [py_labels(ax.values) for ax in v.axes]
        if any(any(isinstance(x, (tuple, list)) or x is None for x in l) for l in labels):
            raise Skip("labels")
        dt = {"float64": "f8", "float32": "f4", "int64": "i8", "int32": "i4", "bool": "b1"}.get(str(v.values.dtype))
        if dt is None:
            raise Skip("dtype")
        spec = {"dims": list(v.dims), "labels": labels, "dtype": dt, "values": v.values.tolist(),
                "attrs": _copy.deepcopy(dict(v.attrs)), "axattrs": [_copy.deepcopy(dict(ax.attrs)) for ax in v.axes]}
        accepted = self.model.accepts(spec)
        before = self.identity_state(self.ds)
        v_before = V.snap(v)
        raised = None
        try:
            self.ds[s["key"]] = v
        except Exception as e:
            raised = e
        self.count("c13:reassign_extracted_%s" % ("accepted" if accepted else "refused"))
        if "C15" in self.props and V.snap(v) != v_before:
            raise Violation("C15", "operand_changed", "ds[%r] = <variable taken from the dataset earlier> changed that array: %s" % (
                s["key"], V.describe_snap_diff(v_before, V.snap(v))))
        if accepted:
            if raised is not None:
                if "C13" in self.props:
                    raise Violation("C13", "ds_accept", "ds[%r] = <variable taken from the dataset earlier, labels matching> raised %s: %s" % (
                        s["key"], type(raised).__name__, str(raised)[:160]))
                raise Skip("raised")
            self.model.setitem(s["key"], spec)
            self.n_mut += 1
            return "ok"
        self.n_rej += 1
        self.count("fault:rejected_assignment")
        if "C13" in self.props:
            if not isinstance(raised, ValueError):
                raise Violation("C13", "ds_reject_raises", "ds[%r] = <variable taken from the dataset earlier> whose labels %r now disagree with the dataset's %s" % (
                    s["key"], dict(zip(v.dims, labels)), "was accepted" if raised is None else "raised %s instead of ValueError" % type(raised).__name__))
            after = self.identity_state(self.ds)
            if after != before:
                raise Violation("C13", "ds_reject_noop", "rejected ds[%r] = <variable taken from the dataset earlier> changed the dataset: %s" % (
                    s["key"], V.describe_snap_diff(before[0], after[0]) or "object identities changed"))
        return "rejected" if raised is not None else "accepted!"

    def x_set_raw(self, s):
        self.ds[s["key"]] = s["value"]
        self.model.setitem(s["key"], {"dims": [], "labels": [], "dtype": "f8" if isinstance(s["value"], float) else "i8", "values": s["value"]})
        self.n_mut += 1
        return "ok"

    def x_del(self, s):
        if s["key"] not in self.model.vars:
            raise Skip("key")
        via = s.get("via", "del")
        self.count("c13:delete_via_" + via)
        if via == "pop":
            got = self.ds.pop(s["key"])
            if list(got.dims) != self.model.vars[s["key"]]["dims"]:
                raise Violation("C13", "ds_visible", "ds.pop(%r) returned dims %r, model %r" % (s["key"], got.dims, self.model.vars[s["key"]]["dims"]))
        elif via == "popitem" and list(self.model.vars)[-1] == s["key"] and list(dict.keys(self.ds))[-1] == s["key"]:
            k, got = self.ds.popitem()
            if k != s["key"]:
                raise Violation("C13", "ds_keys", "ds.popitem() removed %r, the last key is %r" % (k, s["key"]))
        elif via == "clear":
            self.ds.clear()
            for k in list(self.model.vars):
                self.model.delitem(k)
            self.n_mut += 1
            return "ok"
        else:
            del self.ds[s["key"]]
        self.model.delitem(s["key"])
        self.n_mut += 1
        return "ok"

    def x_rename_keys(self, s):
        if s["old"] not in self.model.vars or s["new"] in self.model.vars:
            raise Skip("key")
        old, new = s["old"], s["new"]
        if s["form"] == "dict":
            self.ds.rename_keys({old: new})
        else:
            self.ds.rename_keys(lambda k: new if k == old else k)
        self.model.rename_key(old, new)
        self.n_mut += 1
        return "ok"

    def x_rename(self, s):
        m, ds = self.model, self.ds
        d, new, route = s["dim"], s["new"], s["route"]
        if d not in m.dims or new in m.dims:
            raise Skip("dim")
        pos = list(ds.dims).index(d) if d in ds.dims else None
        if route.startswith("var_"):
            k = s.get("key")
            if k not in m.vars or d not in m.vars[k]["dims"]:
                raise Skip("var")
            v = ds[k]
        if route == "ax_name":
            ds.axes[d].name = new
        elif route == "ax_name_pos":
            ds.axes[pos].name = new
        elif route == "dims":
            ds.dims = tuple(new if x == d else x for x in ds.dims)
        elif route == "set_axis":
            ds.set_axis(name=new, axis=d)
        elif route == "rename_axes_dict":
            ds.rename_axes({d: new})
        elif route == "rename_axes_fn":
            ds.rename_axes(lambda x: new if x == d else x)
        elif route == "var_ax_name":
            v.axes[d].name = new
        elif route == "var_set_axis":
            v.set_axis(name=new, axis=d)
        elif route == "var_dims":
            v.dims = tuple(new if x == d else x for x in v.dims)
        m.rename_dim(d, new)
        self.n_mut += 1
        self.count("c13:rename_" + route)
        return "ok"

    def x_rename_bulk(self, s):
        m, ds = self.model, self.ds
        if set(s["old"]) != set(m.dims) or len(set(s["new"])) != len(s["new"]):
            raise Skip("stale")
        order = list(ds.dims)
        mapping = dict(zip(s["old"], s["new"]))
        ds.dims = tuple(mapping[d] for d in order)
        # simultaneous rename in the model
        m.dims = {mapping[d]: v for d, v in m.dims.items()}
        m.unused = set(mapping[d] for d in m.unused)
        for v in m.vars.values():
            v["dims"] = [mapping[d] for d in v["dims"]]
        self.n_mut += 1
        self.count("c13:rename_bulk" + ("_permutation" if set(s["new"]) & set(s["old"]) else ""))
        return "ok"

    def x_relabel(self, s):
        m, ds = self.model, self.ds
        d, new, route = s["dim"], s["new"], s["route"]
        if d not in m.dims or len(new) != len(m.dims[d]["labels"]):
            raise Skip("dim")
        arr = V.label_array(new)
        if route.startswith("var_"):
            k = s.get("key")
            if k not in m.vars or d not in m.vars[k]["dims"]:
                raise Skip("var")
            v = ds[k]
        if route in ("ax_item", "var_ax_item", "set_axis_dict"):
            i = s["i"]
            old = m.dims[d]["labels"]
            if i >= len(old) or new[i] in old or new[:i] + new[i + 1:] != old[:i] + old[i + 1:]:
                raise Skip("stale")
        if route == "ax_item":
            ds.axes[d][s["i"]] = new[s["i"]]
        elif route == "ax_values":
            ds.axes[d].values = arr
        elif route == "set_axis":
            ds.set_axis(arr, axis=d)
        elif route == "set_axis_dict":
            ds.set_axis({m.dims[d]["labels"][s["i"]]: new[s["i"]]}, axis=d)
        elif route == "attr":
            setattr(ds, d, arr)
        elif route == "set_axis_fn":
            add = s["add"]
            if [x + add for x in m.dims[d]["labels"]] != new:
                raise Skip("stale")
            ds.set_axis(lambda x: x + add, axis=d)
        elif route == "var_set_axis_fn":
            add = s["add"]
            if [x + add for x in m.dims[d]["labels"]] != new:
                raise Skip("stale")
            v.set_axis(lambda x: x + add, axis=d)
        elif route == "var_ax_item":
            v.axes[d][s["i"]] = new[s["i"]]
        elif route == "var_set_axis":
            v.set_axis(arr, axis=d)
        elif route == "var_attr":
            setattr(v, d, arr)
        elif route == "var_labels":
            v.labels = tuple(arr if x == d else V.label_array(m.dims[x]["labels"]) for x in v.dims)
        m.relabel(d, new)
        self.n_mut += 1
        self.count("c13:relabel_" + route)
        return "ok"

    def x_axes_setitem(self, s):
        from dimarray import Axis
        m, ds = self.model, self.ds
        d = s["dim"]
        if d not in m.dims or len(s["new"]) != len(m.dims[d]["labels"]):
            raise Skip("dim")
        newname = s.get("newname")
        if newname and newname in m.dims:
            raise Skip("name")
        key = list(ds.dims).index(d) if s["by_pos"] else d
        users = sum(1 for v in m.vars.values() if d in v["dims"])
        arr = V.label_array(s["new"])
        if s.get("objdtype") and arr.dtype.kind in "if":
            arr = np.array(s["new"], dtype=object)
            self.count("c13:axis_object_dtype_numbers")
        val = Axis(arr, newname or d) if s["as"] == "axis" else s["new"]
        try:
            ds.axes[key] = val
        except Exception as e:
            if "C13" in self.props:
                raise Violation("C13", "ds_axes_setitem", "ds.axes[%r] = %s raised %s: %s" % (key, s["as"], type(e).__name__, str(e)[:160]))
            raise Skip("raised")
        m.relabel(d, s["new"])
        m.dims[d]["attrs"] = {}
        if newname:
            m.rename_dim(d, newname)
        self.n_mut += 1
        self.count("c13:axes_setitem_%s_users%d" % ("pos" if s["by_pos"] else "name", min(users, 2)))
        return "ok"

    def x_axes_assign(self, s):
        from dimarray import Axis
        m, ds = self.model, self.ds
        if s.get("illfit"):
            if not all(d in m.dims for d, labs in s["items"]) or len(s["items"][-1][1]) == len(m.dims[s["items"][-1][0]]["labels"]):
                raise Skip("stale")
            if any(len(labs) != len(m.dims[d]["labels"]) for d, labs in s["items"][:-1]):
                raise Skip("stale")
            users = [k for k, v in m.vars.items() if s["items"][-1][0] in v["dims"]]
            if not users:
                raise Skip("an axis no variable uses can take any length")
            try:
                ds.axes = [Axis(V.label_array(labs), d) for d, labs in s["items"]]
                raised = None
            except Exception as e:
                raised = e
            self.count("c13:axes_assign_illfit")
            if raised is None and "C13" in self.props:
                raise Violation("C13", "ds_axes_setitem", "ds.axes = [..., Axis of %d labels for dimension %r of length %d] was accepted" % (
                    len(s["items"][-1][1]), s["items"][-1][0], len(m.dims[s["items"][-1][0]]["labels"])))
            # how much of the request was carried out before it failed is not specified: the model takes the labels the
            # dataset now shows; the invariants checked after this step then demand that every variable shows them too
            for d, labs in s["items"]:
                if d in ds.dims:
                    now = py_labels(ds.axes[d].values)
                    if not _labels_same(now, m.dims[d]["labels"]):
                        m.relabel(d, now)
                        m.dims[d]["attrs"] = _copy.deepcopy(dict(ds.axes[d].attrs))
            return "rejected"
        for d, labs in s["items"]:
            if d in m.dims and len(labs) != len(m.dims[d]["labels"]):
                raise Skip("stale")
        try:
            ds.axes = [Axis(V.label_array(labs), d) for d, labs in s["items"]]
        except Exception as e:
            if "C13" in self.props:
                raise Violation("C13", "ds_axes_setitem", "ds.axes = [Axis...] raised %s: %s" % (type(e).__name__, str(e)[:160]))
            raise Skip("raised")
        for d, labs in s["items"]:
            if d in m.dims:
                m.relabel(d, labs)
                m.dims[d]["attrs"] = {}
            else:
                m.dims[d] = {"labels": list(labs), "attrs": {}}
                m.unused.add(d)
        self.n_mut += 1
        self.count("c13:axes_assign")
        return "ok"

    def x_fork_copy(self, s):
        """An out-of-place variant returns a second dataset; both must stay valid, and independent in their axes."""
        m, ds = self.model, self.ds
        how = s["how"]
        m2 = m.clone()
        if how == "copy":
            ds2 = ds.copy()
            m2.attrs = dict(m.attrs)
        elif how == "rename_keys":
            if not m.vars:
                raise Skip("empty")
            suffix = [x for x in ("_", "_r", "_q", "_zz") if not any((k + x) in m.vars for k in m.vars)]
            if not suffix:
                raise Skip("every candidate name collides with an existing key")
            suffix = suffix[0]
            ds2 = ds.rename_keys(lambda k: k + suffix, inplace=False)
            for k in list(m2.vars):
                m2.rename_key(k, k + suffix)
        elif how == "rename_axes":
            if not m.used():
                raise Skip("empty")
            d = m.used()[0]
            new = [n for n in self.new_names + ["w1", "w2"] if n not in m.dims][0]
            ds2 = ds.rename_axes({d: new}, inplace=False)
            m2.rename_dim(d, new)
        else:
            if not m.used():
                raise Skip("empty")
            d = m.used()[0]
            labs = m.dims[d]["labels"]
            new = list(reversed(labs))
            if new == labs:
                raise Skip("nothing to change")
            ds2 = ds.set_axis(V.label_array(new), axis=d, inplace=False)
            m2.relabel(d, new)
        from dimarray import Dataset
        if not isinstance(ds2, Dataset):
            # nothing was returned to judge; the original is still checked below by the step loop
            self.count("c13:fork_noresult")
            raise Skip("%s(inplace=False) returned %s" % (how, type(ds2).__name__))
        # copies drop axes that no variable uses (they are rebuilt from the variables)
        for d in list(m2.unused):
            if d not in ds2.dims:
                m2.unused.discard(d)
                m2.dims.pop(d, None)
        if "C13" in self.props:
            self.check_invariants(ds2, m2, "on the result of %s(inplace=False)" % how)
            self.check_invariants(ds, m, "on the original after %s(inplace=False)" % how)
            for d in ds2.dims:
                if d in ds.dims and ds2.axes[d] is ds.axes[d]:
                    raise Violation("C13", "ds_sharing", "the dataset returned by %s(inplace=False) holds the original's Axis object for %r" % (how, d))
        self.ghost = (ds, m) if s["continue_on"] == "copy" else (ds2, m2)
        if s["continue_on"] == "copy":
            self.ds, self.model = ds2, m2
        self.n_mut += 1
        self.count("c13:fork_" + how)
        return "ok"

    def x_append_axis(self, s):
        from dimarray import Axis
        if s["name"] in self.model.dims:
            raise Skip("name")
        self.ds.axes.append(Axis(V.label_array(s["labels"]), s["name"]))
        self.model.dims[s["name"]] = {"labels": list(s["labels"]), "attrs": {}}
        self.model.unused.add(s["name"])
        self.n_mut += 1
        return "ok"

    def x_query(self, s):
        ds, d = self.ds, s["dim"]
        if d not in ds.dims:
            raise Skip("dim")
        if s["what"] == "repr":
            try:
                repr(ds)
            except Exception:
                # pretty-printing is no claimed property (repr of a dataset holding a 0-d string variable raises on the pinned tree)
                self.count("c13:repr_raised")
                return "unasserted:repr"
        elif s["what"] == "var_mono":
            for k in dict.keys(ds):
                v = dict.__getitem__(ds, k)
                if d in v.dims:
                    v.axes[d].is_monotonic()
        else:
            ds.axes[d].is_monotonic()
        self.count("c13:cache_query")
        return "ok"

    def x_meta(self, s):
        if s["name"].startswith("_"):
            self.ds.attrs[s["name"]] = V._deepcopy_json(s["value"])    # any key is legal metadata when written through attrs
        else:
            setattr(self.ds, s["name"], V._deepcopy_json(s["value"]))
        self.model.attrs[s["name"]] = V._deepcopy_json(s["value"])
        return "ok"

    # -- the fault: a rejected assignment ----------------------------------------------------
    def identity_state(self, ds):
        keys = list(dict.keys(ds))
        return (V.snap_dataset(ds), tuple(id(ax) for ax in list.__iter__(ds._axes)),
                tuple((k, id(dict.__getitem__(ds, k)), tuple(id(ax) for ax in list.__iter__(dict.__getitem__(ds, k)._axes)),
                       id(dict.__getitem__(ds, k)._values)) for k in keys))

    def x_reject(self, s):
        spec = s["spec"]
        if self.model.accepts(spec):
            raise Skip("would be accepted")
        a = V.build_array(spec)
        before = self.identity_state(self.ds)
        a_before = V.snap(a)
        raised = None
        via = s.get("via", "setitem")
        if via == "setdefault" and s["key"] in self.model.vars:
            via = "setitem"
        try:
            self._assign(via, s["key"], a)
        except ValueError as e:
            raised = e
        except Exception as e:
            raised = e
        self.n_rej += 1
        self.count("fault:rejected_assignment")
        t = s.get("template") or {}
        self.count("c13:reject_k%d_j%d_%s_%s" % (t.get("k", 0), t.get("j", 0), "newdim_before" if "new" in (t.get("others") or [])[:t.get("j", 0)] else "plain", s.get("kind")))
        if "C13" in self.props:
            if not isinstance(raised, ValueError):
                raise Violation("C13", "ds_reject_raises", "assignment with labels that disagree on %s (%s) %s" % (
                    s["bad_dim"], s["kind"], "was accepted" if raised is None else "raised %s instead of ValueError" % type(raised).__name__))
            after = self.identity_state(self.ds)
            if after != before:
                d = V.describe_snap_diff(before[0], after[0]) or "object identities changed"
                raise Violation("C13", "ds_reject_noop", "rejected ds[%r] = array(dims=%r) (mismatch on %r at position %d) changed the dataset: %s; dims now %r" % (
                    s["key"], spec["dims"], s["bad_dim"], t.get("j", -1), d, self.ds.dims))
        if V.snap(a) != a_before and "C15" in self.props:
            raise Violation("C15", "operand_changed", "rejected assignment changed the array")
        return "rejected" if raised is not None else "accepted!"

    # -- invariants ------------------------------------------------------------------------
    def check_invariants(self, ds, m, when, prop="C13"):
        keys = list(dict.keys(ds))
        if keys != list(m.vars):
            if sorted(keys) != sorted(m.vars):
                raise Violation(prop, "ds_keys", "%s: keys %r, model %r" % (when, keys, list(m.vars)))
        dsdims = list(ds.dims)
        if len(set(dsdims)) != len(dsdims):
            raise Violation(prop, "ds_dims", "%s: duplicate dataset dimensions %r" % (when, dsdims))
        want = set(m.used()) | set(m.unused)
        if set(dsdims) != want:
            raise Violation(prop, "ds_dims", "%s: dataset dims %r, variables use %r (+ appended-unused %r)" % (
                when, dsdims, m.used(), sorted(m.unused)))
        for d in dsdims:
            got = py_labels(ds.axes[d].values)
            if not _labels_same(got, m.dims[d]["labels"]):
                raise Violation(prop, "ds_visible", "%s: ds.axes[%r] labels %r, model %r" % (when, d, got, m.dims[d]["labels"]))
            if d not in keys:
                # ds[<dimension>] hands out the axis as an array: the dataset's view of its own labels
                try:
                    view = py_labels(ds[d].values)
                except Exception:
                    view = None
                if view is not None and not _labels_same(view, m.dims[d]["labels"]):
                    raise Violation(prop, "ds_visible", "%s: ds[%r] shows labels %r, model %r" % (when, d, view, m.dims[d]["labels"]))
        for k in keys:
            v = dict.__getitem__(ds, k)
            mv = m.vars[k]
            if list(v.dims) != mv["dims"]:
                raise Violation(prop, "ds_visible", "%s: ds[%r].dims %r, model %r" % (when, k, v.dims, mv["dims"]))
            for i, d in enumerate(v.dims):
                if v.axes[i] is not ds.axes[d]:
                    raise Violation(prop, "ds_sharing", "%s: ds[%r].axes[%r] is not ds.axes[%r] (labels %r vs %r)" % (
                        when, k, d, d, py_labels(v.axes[i].values), py_labels(ds.axes[d].values)))
            if v.values.shape != mv["values"].shape or not V._close(v.values, mv["values"], 1e-12):
                raise Violation(prop, "ds_values", "%s: ds[%r] values %r, model %r" % (when, k, v.values.tolist(), mv["values"].tolist()))
            if v.values.dtype.kind != mv["values"].dtype.kind:
                raise Violation(prop, "ds_values", "%s: ds[%r] dtype kind %s, model %s" % (when, k, v.values.dtype.kind, mv["values"].dtype.kind))
            if V.attrs_key(v.attrs) != V.attrs_key(mv["attrs"]):
                raise Violation(prop, "ds_values", "%s: ds[%r] attrs %r, model %r" % (when, k, dict(v.attrs), mv["attrs"]))
        self.count("c13:invariants_checked")

    # -- Dataset-wide operations (C14) ---------------------------------------------------------
    def x_dsop(self, s):
        from dsim.worlds import dataset_ops
        return dataset_ops.run_dsop(self, s)


def raised_in_library(e):
    """True if the exception was raised inside dimarray / numpy rather than in harness code."""
    tb = e.__traceback__
    last = None
    while tb is not None:
        last = tb.tb_frame.f_code.co_filename
        tb = tb.tb_next
    if last is None:
        return False
    if (os.sep + "dsim" + os.sep + "standin" + os.sep) in last:
        return True       # the simulated store refused a call made by the library
    return (os.sep + "dsim" + os.sep) not in last


def donor_key(a):
    """Dims, labels and metadata of an array (not its values: a Dataset shares the value buffer by design)."""
    return (tuple(V.snap_axis(ax) for ax in list.__iter__(a._axes)), V.attrs_key(a._attrs))


def _same_label(a, b):
    if isinstance(a, str) or isinstance(b, str):
        return isinstance(a, str) and isinstance(b, str) and a == b
    return a == b


def _labels_same(a, b):
    return len(a) == len(b) and all(_same_label(x, y) for x, y in zip(a, b))


def _index_of(labels, x):
    for i, l in enumerate(labels):
        if _same_label(l, x):
            return i
    raise Violation("C13", "ds_ctor_align", "label %r is missing from the aligned axis %r" % (x, labels))
