"""Stand-in for netCDF4-python, backed by the simulator's virtual file system (placeholder)."""
__dsim_standin__ = True
class Dataset(object):
    pass
