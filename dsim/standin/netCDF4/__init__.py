"""Stand-in for netCDF4-python over SimFS (contract S1-S8 in /verif/DESIGN.md section 3.3).

This is a STUB: a small, deliberately permissive model of the parts of netCDF4-python that
dimarray/io/nc.py relies on.  It is not netCDF4; verdicts obtained on it are verdicts about nc.py.
"""
import numpy as np

from dsim.standin.simfs import FS, FileImage, VarImage, DimImage

__dsim_standin__ = True
__version__ = "0.0-dsim-standin"

default_fillvals = {"f8": 9.969209968386869e+36, "f4": 9.969209968386869e+36, "i8": -9223372036854775806,
                    "i4": -2147483647, "i2": -32767, "i1": -127, "u1": 255}


def _is_int_like(x):
    return isinstance(x, (int, np.integer)) and not isinstance(x, (bool, np.bool_))


class Dimension(object):
    def __init__(self, handle, img):
        self._h, self._img = handle, img

    @property
    def name(self):
        return self._img.name

    @property
    def size(self):
        return self._img.length

    def __len__(self):
        return self._img.length

    def isunlimited(self):
        return self._img.unlimited

    def __repr__(self):
        return "<stand-in netCDF4.Dimension %s%s size=%d>" % (self.name, " (unlimited)" if self._img.unlimited else "", self._img.length)


class _HasAttrs(object):
    def _attrs(self):
        raise NotImplementedError

    def setncattr(self, name, value):
        self._h._check_write("setncattr")
        self._attrs()[name] = _encode_attr(value)
        self._h._mutated()

    def setncatts(self, d):
        for k in d:
            self.setncattr(k, d[k])

    def getncattr(self, name):
        self._h._check_open("getncattr")
        try:
            return _decode_attr(self._attrs()[name])
        except KeyError:
            raise AttributeError("NetCDF: Attribute not found: %s" % name)

    def delncattr(self, name):
        self._h._check_write("delncattr")
        if name not in self._attrs():
            raise AttributeError("NetCDF: Attribute not found: %s" % name)
        del self._attrs()[name]
        self._h._mutated()

    def ncattrs(self):
        self._h._check_open("ncattrs", tick=False)
        return list(self._attrs().keys())

    def __getattr__(self, name):
        if name.startswith("_") and name != "_FillValue":
            raise AttributeError(name)
        try:
            attrs = self._attrs()
        except Exception:
            raise AttributeError(name)
        if name in attrs:
            return _decode_attr(attrs[name])
        raise AttributeError(name)


def _encode_attr(value):
    if isinstance(value, (bool, np.bool_)):
        raise TypeError("illegal data type for attribute, must be one of dict_keys(['S1', 'i1', 'u1', 'i2', 'u2', 'i4', 'u4', 'i8', 'u8', 'f4', 'f8']), got b1")
    if value is None or isinstance(value, dict):
        raise TypeError("illegal data type for attribute, got O")
    if isinstance(value, (str, np.str_)):
        return ("str", str(value))
    if isinstance(value, bytes):
        return ("str", value.decode("utf-8", "replace"))
    arr = np.asarray(value)
    if arr.dtype.kind in "US":
        return ("strs", [str(x) for x in arr.ravel().tolist()])
    if arr.dtype.kind == "O":
        if arr.size and all(isinstance(x, str) for x in arr.ravel().tolist()):
            return ("strs", [str(x) for x in arr.ravel().tolist()])
        raise TypeError("illegal data type for attribute, got O")
    if arr.dtype.kind == "b":
        raise TypeError("illegal data type for attribute, got b1")
    if arr.dtype.kind not in "iuf":
        raise TypeError("illegal data type for attribute, got %s" % arr.dtype.str)
    return ("num", np.array(arr, copy=True).ravel())


def _decode_attr(enc):
    kind, v = enc
    if kind == "str":
        return v
    if kind == "strs":
        return v[0] if len(v) == 1 else list(v)
    if v.size == 1:
        return v[0]           # numpy scalar, as netCDF4 returns
    return np.array(v, copy=True)


class Variable(_HasAttrs):
    def __init__(self, handle, img):
        object.__setattr__(self, "_h", handle)
        object.__setattr__(self, "_img", img)

    def _attrs(self):
        return self._img.attrs

    # ---- description
    @property
    def name(self):
        return self._img.name

    @property
    def dimensions(self):
        return tuple(self._img.dims)

    @property
    def dtype(self):
        return str if self._img.is_str else self._img.dtype

    @property
    def shape(self):
        return tuple(self._h._img.dims[d].length for d in self._img.dims)

    @property
    def ndim(self):
        return len(self._img.dims)

    @property
    def size(self):
        n = 1
        for s in self.shape:
            n *= s
        return n

    def __len__(self):
        if not self._img.dims:
            raise TypeError("len() of unsized object")
        return self.shape[0]

    def __array__(self, dtype=None, copy=None):
        out = self[...]
        return np.asarray(out, dtype=dtype)

    def __repr__(self):
        return "<stand-in netCDF4.Variable %s%r %s>" % (self.name, self.dimensions, self._img.dtype)

    # ---- storage
    def _ensure(self):
        """Bring the stored array to the current shape (unlimited dimensions may have grown)."""
        img = self._img
        shape = self.shape
        if img.data is None:
            img.data = np.empty(shape, dtype=object if img.is_str else img.dtype)
            if not img.is_str:
                img.data[...] = _fill(img)
            img.missing = np.ones(shape, dtype=bool)
        elif img.data.shape != shape:
            new = np.empty(shape, dtype=img.data.dtype)
            if not img.is_str:
                new[...] = _fill(img)
            miss = np.ones(shape, dtype=bool)
            sl = tuple(slice(0, min(a, b)) for a, b in zip(img.data.shape, shape))
            new[sl] = img.data[sl]
            miss[sl] = img.missing[sl]
            img.data, img.missing = new, miss

    def __getitem__(self, key):
        self._h._check_open("var[...] read")
        self._ensure()
        img = self._img
        sel, drop = _selectors(key, self.shape, [False] * self.ndim, None)
        data = _ortho_get(img.data, sel, drop)
        miss = _ortho_get(img.missing, sel, drop)
        if img.is_str:
            if np.ndim(data) == 0:
                v = data[()] if isinstance(data, np.ndarray) else data
                return "" if v is None else v
            out = np.array(data, dtype=object, copy=True)
            out[np.asarray(miss, dtype=bool)] = ""
            return out
        data = np.array(data, copy=True)
        miss = np.array(miss, dtype=bool, copy=True)
        if img.fill_value is not None:
            with np.errstate(invalid="ignore"):
                miss = miss | (data == img.fill_value)
        if miss.any():
            return np.ma.MaskedArray(data, mask=miss)
        if data.ndim == 0 and sel and all(drop):
            return data[()]      # element access returns a numpy scalar
        return data

    def __setitem__(self, key, value):
        self._h._check_write("var[...] = write")
        img = self._img
        himg = self._h._img
        masked = None
        if isinstance(value, np.ma.MaskedArray):
            masked = np.ma.getmaskarray(value)
            value = value.filled(_fill(img) if not img.is_str else "")
        value = np.asarray(value, dtype=object) if img.is_str and not isinstance(value, np.ndarray) else np.asarray(value)
        unlimited = [himg.dims[d].unlimited for d in img.dims]
        self._ensure()
        sel, drop = _selectors(key, self.shape, unlimited, value.shape)
        # growth of unlimited dimensions
        for i, d in enumerate(img.dims):
            need = (int(np.max(sel[i])) + 1) if len(sel[i]) else 0
            if need > himg.dims[d].length:
                if not unlimited[i]:
                    raise IndexError("index exceeds dimension bounds")
                himg.dims[d].length = need
        self._ensure()
        target_shape = tuple(len(s) for s in sel)
        if img.is_str:
            vals = value.astype(object) if isinstance(value, np.ndarray) else value
        else:
            if value.dtype.kind in "OUS":
                try:
                    vals = value.astype(img.dtype)
                except (TypeError, ValueError) as e:
                    raise TypeError("cannot store %s data in a %s variable: %s" % (value.dtype, img.dtype, e))
            else:
                with np.errstate(invalid="ignore"):
                    vals = value.astype(img.dtype)
        n = 1
        for s_ in target_shape:
            n *= s_
        if vals.size == n:
            vals = vals.reshape(target_shape)
            if masked is not None:
                masked = np.asarray(masked).reshape(target_shape)
        else:
            kept = tuple(s_ for s_, dr in zip(target_shape, drop) if not dr)
            try:
                vals = np.broadcast_to(vals, kept).reshape(target_shape)
            except ValueError:
                raise ValueError("shape mismatch: cannot assign data of shape %r to a selection of shape %r" % (value.shape, kept))
            if masked is not None:
                masked = np.broadcast_to(masked, kept).reshape(target_shape)
        if n:
            ix = np.ix_(*sel) if sel else ()
            img.data[ix] = vals
            img.missing[ix] = False if masked is None else masked
        self._h._mutated()


def _fill(img):
    if img.fill_value is not None:
        return img.fill_value
    return default_fillvals.get(np.dtype(img.dtype).str[1:], 0)


def _top_level(key):
    if isinstance(key, tuple):
        return list(key)
    if isinstance(key, np.ndarray):
        return [key]
    if isinstance(key, list):
        if all(_is_int_like(x) or isinstance(x, (bool, np.bool_)) for x in key):
            return [key]                       # a sequence of integers addresses the first dimension
        return list(key)                       # any other iterable is the per-dimension tuple
    return [key]


def _selectors(key, shape, unlimited, value_shape):
    """Per-dimension integer position arrays (orthogonal indexing) and which dimensions an int index drops."""
    elems = _top_level(key)
    ndim = len(shape)
    n_ell = sum(1 for e in elems if e is Ellipsis)
    if n_ell > 1:
        raise IndexError("an index can only have a single ellipsis")
    if n_ell:
        i = [j for j, e in enumerate(elems) if e is Ellipsis][0]
        elems = elems[:i] + [slice(None)] * (ndim - (len(elems) - 1)) + elems[i + 1:]
    if len(elems) > ndim:
        raise IndexError("too many indices for a %d-dimensional variable" % ndim)
    elems = elems + [slice(None)] * (ndim - len(elems))
    # which entry of the value's shape belongs to which kept dimension (only when ranks agree)
    kept_pos = {}
    k = 0
    for i, e in enumerate(elems):
        if not (_is_int_like(e) or (isinstance(e, np.ndarray) and e.ndim == 0 and e.dtype.kind in "iu")):
            kept_pos[i] = k
            k += 1
    datashape = value_shape if (value_shape is not None and len(value_shape) == k) else None
    sel, drop = [], []
    for i, e in enumerate(elems):
        n = shape[i]
        if isinstance(e, np.ndarray) and e.ndim == 0 and e.dtype.kind in "iu":
            e = int(e)
        if _is_int_like(e):
            p = int(e)
            if p < 0:
                p += n
            if p < 0 or (p >= n and not (unlimited[i] and value_shape is not None)):
                raise IndexError("index %d out of range for dimension of length %d" % (int(e), n))
            sel.append(np.array([p], dtype=int))
            drop.append(True)
            continue
        drop.append(False)
        if isinstance(e, slice):
            if unlimited[i] and value_shape is not None and e.stop is None and (e.step is None or e.step > 0) and datashape is not None:
                start = 0 if e.start is None else (e.start + n if e.start < 0 else e.start)
                step = 1 if e.step is None else e.step
                cnt = datashape[kept_pos[i]]
                sel.append(start + step * np.arange(cnt, dtype=int))
            elif unlimited[i] and value_shape is not None and e.stop is not None and e.stop > n and (e.step is None or e.step > 0):
                start = 0 if e.start is None else e.start
                sel.append(np.arange(start, e.stop, 1 if e.step is None else e.step, dtype=int))
            else:
                sel.append(np.arange(*e.indices(n), dtype=int))
            continue
        arr = np.asarray(e)
        if arr.ndim != 1:
            raise IndexError("only integers, slices, ellipsis and 1-D integer or boolean sequences are valid indices (got %r)" % (e,))
        if arr.dtype.kind == "b":
            if arr.size != n:
                raise IndexError("boolean index of length %d for a dimension of length %d" % (arr.size, n))
            sel.append(np.nonzero(arr)[0].astype(int))
            continue
        if arr.size == 0:
            sel.append(np.array([], dtype=int))
            continue
        if arr.dtype.kind not in "iu":
            raise IndexError("only integers, slices, ellipsis and 1-D integer or boolean sequences are valid indices (got %r)" % (e,))
        pos = arr.astype(int)
        pos = np.where(pos < 0, pos + n, pos)
        if (pos < 0).any() or ((pos >= n).any() and not (unlimited[i] and value_shape is not None)):
            raise IndexError("index out of range for dimension of length %d" % n)
        sel.append(pos)
    return sel, drop


def _ortho_get(data, sel, drop):
    if not sel:
        return data[()] if data.ndim == 0 else data
    out = data[np.ix_(*sel)]
    idx = tuple(0 if d else slice(None) for d in drop)
    return out[idx]


class _VarMap(object):
    """ds.variables: ordered name -> Variable mapping (deletion is refused, as on a real file)."""

    def __init__(self, handle):
        self._h = handle

    def keys(self):
        return list(self._h._img.vars.keys())

    def __iter__(self):
        return iter(self.keys())

    def __contains__(self, name):
        return name in self._h._img.vars

    def __len__(self):
        return len(self._h._img.vars)

    def __getitem__(self, name):
        return Variable(self._h, self._h._img.vars[name])

    def values(self):
        return [self[k] for k in self.keys()]

    def items(self):
        return [(k, self[k]) for k in self.keys()]

    def get(self, name, default=None):
        return self[name] if name in self else default

    def __delitem__(self, name):
        raise RuntimeError("NetCDF: variables cannot be deleted from a file")


class _DimMap(_VarMap):
    def keys(self):
        return list(self._h._img.dims.keys())

    def __contains__(self, name):
        return name in self._h._img.dims

    def __len__(self):
        return len(self._h._img.dims)

    def __getitem__(self, name):
        return Dimension(self._h, self._h._img.dims[name])


class Dataset(_HasAttrs):
    def __init__(self, filename, mode="r", clobber=True, format="NETCDF4", diskless=False, persist=False, **kwargs):
        object.__setattr__(self, "_closed", True)
        object.__setattr__(self, "_path", filename)
        object.__setattr__(self, "_h", self)
        if not isinstance(filename, str):
            raise TypeError("filename must be a str")
        FS.tick("open:" + mode)
        if mode in ("r", "a", "r+"):
            if not FS.exists(filename):
                raise FileNotFoundError(2, "No such file or directory", filename)
            img = FS.files[filename]
        elif mode == "w":
            if FS.exists(filename) and not clobber:
                raise OSError("NetCDF: File exists && NC_NOCLOBBER: %r" % filename)
            if format not in ("NETCDF4", "NETCDF4_CLASSIC", "NETCDF3_CLASSIC", "NETCDF3_64BIT", "NETCDF3_64BIT_OFFSET", "NETCDF3_64BIT_DATA"):
                raise ValueError("unknown format %r" % (format,))
            img = FileImage(format)
            FS.files[filename] = img
            FS.created(filename)
            FS.history.pop(filename, None)
            FS.synced.pop(filename, None)
        else:
            raise ValueError("mode must be one of 'r', 'w', 'a', 'r+', got %r" % (mode,))
        object.__setattr__(self, "_img", img)
        object.__setattr__(self, "_mode", mode)
        object.__setattr__(self, "_closed", False)
        object.__setattr__(self, "variables", _VarMap(self))
        object.__setattr__(self, "dimensions", _DimMap(self))
        FS.handles.append(self)
        if mode == "w":
            self._mutated()

    # ---- life cycle
    def _attrs(self):
        return self._img.attrs

    def _check_open(self, what, tick=True):
        if tick:
            FS.tick(what)
        if self._closed:
            raise RuntimeError("NetCDF: Not a valid ID (handle is closed)")

    def _check_write(self, what):
        self._check_open(what)
        if self._mode == "r":
            raise RuntimeError("NetCDF: Write to read only")

    def _mutated(self):
        self._img.version += 1
        if FS.files.get(self._path) is self._img:
            FS.mutated(self._path)

    @property
    def file_format(self):
        return self._img.format

    @property
    def data_model(self):
        return self._img.format

    def isopen(self):
        return not self._closed

    def filepath(self):
        return self._path

    def sync(self):
        self._check_open("sync")
        if FS.files.get(self._path) is self._img:
            FS.sync(self._path)

    def close(self):
        self._check_open("close")
        object.__setattr__(self, "_closed", True)
        if FS.files.get(self._path) is self._img:
            FS.sync(self._path)

    def __enter__(self):
        return self

    def __exit__(self, *exc):
        self.close()

    def __repr__(self):
        return "<stand-in netCDF4.Dataset %r mode=%s %s>" % (self._path, self._mode, "closed" if self._closed else "open")

    # ---- definitions
    def createDimension(self, name, size=None):
        self._check_write("createDimension")
        if not isinstance(name, str) or not name:
            raise ValueError("dimension name must be a non-empty str")
        if name in self._img.dims:
            raise RuntimeError("NetCDF: String match to name in use: %s" % name)
        if size is not None and (not _is_int_like(size) or size < 0):
            raise ValueError("dimension size must be a non-negative int or None")
        if size is None and self._img.format.startswith("NETCDF3") and any(d.unlimited for d in self._img.dims.values()):
            raise RuntimeError("NetCDF: NC_UNLIMITED size already in use")
        self._img.dims[name] = DimImage(name, size)
        self._mutated()
        return Dimension(self, self._img.dims[name])

    def createVariable(self, varname, datatype, dimensions=(), zlib=False, complevel=4, shuffle=True, fletcher32=False,
                       contiguous=False, chunksizes=None, endian="native", least_significant_digit=None, fill_value=None,
                       **kwargs):
        self._check_write("createVariable")
        if not isinstance(varname, str) or not varname:
            raise ValueError("variable name must be a non-empty str")
        if varname in self._img.vars:
            raise RuntimeError("NetCDF: String match to name in use: %s" % varname)
        if isinstance(dimensions, str):
            dimensions = (dimensions,)
        dimensions = tuple(d.name if isinstance(d, Dimension) else d for d in dimensions)
        for d in dimensions:
            if d not in self._img.dims:
                raise KeyError("NetCDF: dimension %r is not defined" % (d,))
        is_str = False
        if datatype is str:
            is_str = True
            dt = None
        else:
            dt = np.dtype(datatype)
            if dt.kind == "U" or (dt.kind == "S" and dt.itemsize > 1) or dt.kind == "O":
                if dt.kind == "O":
                    raise TypeError("illegal primitive data type, must be one of ..., got O")
                is_str, dt = True, None
            elif dt.kind == "S":
                is_str, dt = True, None
            elif dt.kind == "b":
                raise TypeError("illegal primitive data type, must be one of ..., got bool")
            elif dt.kind not in "iuf":
                raise TypeError("illegal primitive data type, got %s" % dt)
        if self._img.format.startswith("NETCDF3") or self._img.format == "NETCDF4_CLASSIC":
            if is_str:
                raise RuntimeError("NetCDF: Attempting netcdf-4 operation on strict nc3 netcdf-4 file (variable-length strings)")
            if dt.kind == "u" or dt.itemsize == 8 and dt.kind == "i":
                raise RuntimeError("NetCDF: Invalid type for format %s: %s" % (self._img.format, dt))
        if fill_value is not None and not is_str:
            fill_value = np.asarray(fill_value).astype(dt)[()]
        img = VarImage(varname, dt, dimensions, is_str, None if is_str else fill_value)
        if fill_value is not None and not is_str:
            img.attrs["_FillValue"] = ("num", np.array([fill_value]))
        self._img.vars[varname] = img
        self._mutated()
        return Variable(self, img)

    def renameDimension(self, old, new):
        self._check_write("renameDimension")
        if old not in self._img.dims or new in self._img.dims:
            raise RuntimeError("NetCDF: cannot rename dimension %r to %r" % (old, new))
        self._img.dims = {(new if k == old else k): v for k, v in self._img.dims.items()}
        self._img.dims[new].name = new
        for v in self._img.vars.values():
            v.dims = tuple(new if d == old else d for d in v.dims)
        self._mutated()

    def renameVariable(self, old, new):
        self._check_write("renameVariable")
        if old not in self._img.vars or new in self._img.vars:
            raise RuntimeError("NetCDF: cannot rename variable %r to %r" % (old, new))
        self._img.vars = {(new if k == old else k): v for k, v in self._img.vars.items()}
        self._img.vars[new].name = new
        self._mutated()

    def __setattr__(self, name, value):
        if name.startswith("_"):
            object.__setattr__(self, name, value)
        else:
            self.setncattr(name, value)
