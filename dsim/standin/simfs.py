"""SimFS placeholder."""
class _Path(object):
    def exists(self, p): return False
class OsShim(object):
    path = _Path()
    def remove(self, p): raise OSError(p)
class GlobShim(object):
    def glob(self, p): return []
