"""SimFS: the simulator's virtual file system behind the netCDF4 stand-in (contract S8 in DESIGN.md).

`path -> FileImage`.  Every handle to a path sees every completed storage call at once
(write-through, one process on a page cache).  Durability is only consulted by the crash fault:
the surviving image is the image as of some storage call between the last sync/close and the crash
(= last-synced image + a seeded prefix of the log of calls since then).

Fault injection is count-then-inject: `FS.tick(kind)` is called at the entry of every storage call;
when the armed call number is reached it raises the armed fault instead of performing the call.
"""
import copy
import fnmatch
import os


class Crash(BaseException):
    """Simulated process crash at a storage call (not an Exception: library code must not swallow it)."""


class VarImage(object):
    def __init__(self, name, dtype, dims, is_str, fill_value=None):
        self.name, self.dtype, self.dims, self.is_str, self.fill_value = name, dtype, tuple(dims), is_str, fill_value
        self.data = None
        self.missing = None
        self.attrs = {}


class DimImage(object):
    def __init__(self, name, size):
        self.name = name
        self.unlimited = size is None
        self.length = 0 if size is None else int(size)


class FileImage(object):
    def __init__(self, fmt):
        self.format = fmt
        self.dims = {}
        self.vars = {}
        self.attrs = {}
        self.version = 0


class SimFS(object):
    def __init__(self):
        self.reset()

    def reset(self):
        for name in list(getattr(self, "files", {})) + [n for n in os.listdir(".") if n.endswith(".nc")]:
            try:
                os.remove(name)
            except OSError:
                pass
        self.files = {}
        self.handles = []          # every handle ever opened in this run, in creation order
        self.ncalls = 0            # storage calls in the current step
        self.total_calls = 0
        self.armed = None          # (call number, "error" | "crash")
        self.fired = []
        self.track = False         # keep per-call images for the crash fault
        self.history = {}          # path -> list of (image copy) since the last sync
        self.synced = {}           # path -> image copy at the last sync/close
        self.call_log = []

    # -- fault machinery ----------------------------------------------------------------
    def begin_step(self, armed=None):
        self.ncalls = 0
        self.armed = armed
        self.call_log = []

    def tick(self, kind):
        self.ncalls += 1
        self.total_calls += 1
        self.call_log.append(kind)
        if self.armed is not None and self.ncalls == self.armed[0]:
            what = self.armed[1]
            self.armed = None
            self.fired.append((kind, what))
            if what == "crash":
                raise Crash("injected crash at storage call %d (%s)" % (self.ncalls, kind))
            raise OSError("injected storage error at call %d (%s)" % (self.ncalls, kind))

    def mutated(self, path):
        """Called after every completed mutating storage call."""
        if self.track and path in self.files:
            self.history.setdefault(path, []).append(copy.deepcopy(self.files[path]))

    def sync(self, path):
        if self.track and path in self.files:
            self.synced[path] = copy.deepcopy(self.files[path])
            self.history[path] = []

    def crash(self, rng_choice):
        """All handles are dropped; each file falls back to last-synced image + a prefix of the log."""
        for h in self.handles:
            h._closed = True
        for path in list(self.files):
            hist = self.history.get(path, [])
            base = self.synced.get(path)
            k = rng_choice(len(hist) + 1)  # 0 = nothing after the last sync survived
            if k == 0:
                if base is None:
                    del self.files[path]
                else:
                    self.files[path] = copy.deepcopy(base)
            else:
                self.files[path] = copy.deepcopy(hist[k - 1])
            self.history[path] = []
            if path in self.files:
                self.synced[path] = copy.deepcopy(self.files[path])
        self.sync_markers()

    # -- namespace ------------------------------------------------------------------------
    # Every simulated file is mirrored by an empty marker file of the same (relative) name in the private working
    # directory of the process, so that library code calling the real os / glob sees the same namespace, and so
    # that a file the library removes behind the store's back is gone for the store as well.
    def created(self, path):
        try:
            open(path, "w").close()
        except OSError:
            pass

    def _purge_if_unlinked(self, path):
        if path in self.files and not os.path.exists(path):
            del self.files[path]
            self.history.pop(path, None)
            self.synced.pop(path, None)

    def exists(self, path):
        self._purge_if_unlinked(path)
        return path in self.files

    def remove(self, path):
        self._purge_if_unlinked(path)
        if path not in self.files:
            raise FileNotFoundError(2, "No such file or directory", path)
        del self.files[path]          # open handles keep the unlinked image
        self.history.pop(path, None)
        self.synced.pop(path, None)
        try:
            os.remove(path)
        except OSError:
            pass

    def glob(self, pattern):
        for p in list(self.files):
            self._purge_if_unlinked(p)
        return sorted(p for p in self.files if fnmatch.fnmatchcase(p, pattern))

    def sync_markers(self):
        """After the store was rolled back (crash, dry-run restore): markers exist exactly for the files of the store."""
        for n in os.listdir("."):
            if n.endswith(".nc") and n not in self.files:
                try:
                    os.remove(n)
                except OSError:
                    pass
        for p in self.files:
            if not os.path.exists(p):
                self.created(p)

    def open_handles(self, path=None):
        return [h for h in self.handles if not h._closed and (path is None or h._path == path)]


FS = SimFS()


class _PathShim(object):
    def exists(self, p):
        return FS.exists(p)

    def __getattr__(self, name):
        import os.path
        return getattr(os.path, name)


class OsShim(object):
    """What dimarray.io.nc sees as `os`: path.exists and remove go to SimFS, the rest is the real module."""
    path = _PathShim()

    def remove(self, p):
        FS.tick("remove")
        FS.remove(p)

    def __getattr__(self, name):
        import os
        return getattr(os, name)


class GlobShim(object):
    def glob(self, pattern):
        return FS.glob(pattern)
