"""Self-test of the netCDF4 stand-in against its written contract (S1-S8, DESIGN 3.3).  Run by MANIFEST.setup_cmd
(`check.py --selftest-standin`): a stand-in that drifts from the contract would silently change what C19/C20 decide."""
import os
import numpy as np


def run():
    import netCDF4 as nc
    from dsim.standin.simfs import FS
    assert getattr(nc, "__dsim_standin__", False)
    FS.reset()
    # S1 files
    try:
        nc.Dataset("missing.nc", "r")
        raise AssertionError("S1: opening a missing file for reading must fail")
    except OSError:
        pass
    ds = nc.Dataset("a.nc", "w", format="NETCDF4")
    assert isinstance(ds, nc.Dataset) and ds.file_format == "NETCDF4" and os.path.exists("a.nc")
    try:
        nc.Dataset("a.nc", "w", clobber=False)
        raise AssertionError("S1: clobber=False on an existing file must fail")
    except OSError:
        pass
    # S2 dimensions
    ds.createDimension("x", 3)
    ds.createDimension("t", None)
    assert len(ds.dimensions["x"]) == 3 and not ds.dimensions["x"].isunlimited() and ds.dimensions["t"].isunlimited()
    assert list(ds.dimensions.keys()) == ["x", "t"]
    try:
        ds.createDimension("x", 2)
        raise AssertionError("S2: duplicate dimension")
    except RuntimeError:
        pass
    # S3 variables
    v = ds.createVariable("v", np.dtype("f8"), ("t", "x"))
    s = ds.createVariable("s", str, "x")
    u = ds.createVariable("u", np.dtype("<U3"), ("x",))
    assert v.dimensions == ("t", "x") and s.dtype is str and u.dtype is str
    c = ds.createVariable("x", np.dtype("i8"), "x")
    # S4/S6 writes, growth of the unlimited dimension from the data shape and from explicit positions
    v[:] = np.arange(6.).reshape(2, 3)
    assert v.shape == (2, 3) and len(ds.dimensions["t"]) == 2
    v[3, :] = [7, 8, 9]
    assert v.shape == (4, 3)
    c[:] = [10, 20, 30]
    s[[slice(None)]] = np.array(["a", "b", "c"], dtype=object)      # a list holding a slice is the per-dimension tuple
    s[1] = "zz"
    # S4/S5 reads
    assert isinstance(v[0, :], np.ndarray) and not isinstance(v[0, :], np.ma.MaskedArray)
    assert np.ma.isMaskedArray(v[2, :]) and v[2, :].mask.all()          # never written
    assert v[[0, 1], [True, False, True]].shape == (2, 2)               # orthogonal
    assert v[0, -1] == 2.0 and np.ndim(v[0, -1]) == 0
    assert v[..., 0].shape == (4,)
    assert v[[1, 0, 0], 0].tolist() == [3.0, 0.0, 0.0]                  # any order, repeats
    assert s[1] == "zz" and isinstance(s[1], str) and s[:].dtype == object
    try:
        c[5]
        raise AssertionError("S4: out of range on a limited dimension")
    except IndexError:
        pass
    try:
        c[[True, False]]
        raise AssertionError("S4: boolean index of the wrong length")
    except IndexError:
        pass
    # S7 attributes
    v.setncattr("units", "m")
    v.setncattr("scale", 2)
    v.setncattr("lst", [1, 2, 3])
    v.setncattr("one", [5])
    ds.setncattr("title", "t")
    assert v.units == "m" and v.getncattr("scale") == 2 and v.lst.tolist() == [1, 2, 3] and v.one == 5 and np.ndim(v.one) == 0
    assert v.ncattrs() == ["units", "scale", "lst", "one"] and ds.ncattrs() == ["title"] and hasattr(v, "units") and not hasattr(v, "nope")
    for bad in (True, None, {"a": 1}):
        try:
            v.setncattr("bad", bad)
            raise AssertionError("S7: %r must be refused" % (bad,))
        except TypeError:
            pass
    # fill value honoured
    f = ds.createVariable("f", np.dtype("i4"), ("x",), fill_value=-99)
    f[:] = [1, -99, 3]
    assert np.ma.isMaskedArray(f[:]) and f[:].mask.tolist() == [False, True, False]
    ds.close()
    try:
        v[0, 0]
        raise AssertionError("S1: use of a closed handle")
    except RuntimeError:
        pass
    # NETCDF3 refuses strings and 64-bit integers
    d3 = nc.Dataset("b.nc", "w", format="NETCDF3_CLASSIC")
    d3.createDimension("x", 2)
    for dt in (str, np.dtype("i8")):
        try:
            d3.createVariable("q", dt, ("x",))
            raise AssertionError("S3: NETCDF3 must refuse %r" % (dt,))
        except RuntimeError:
            pass
    d3.close()
    # read-only handle, append handle, write-through visibility
    r = nc.Dataset("a.nc", "r")
    a = nc.Dataset("a.nc", "a")
    try:
        r.variables["x"][0] = 1
        raise AssertionError("S1: write through a read-only handle")
    except RuntimeError:
        pass
    a.variables["x"][0] = 11
    assert r.variables["x"][0] == 11
    r.close()
    a.close()
    # S8 namespace mirrored by marker files
    os.remove("a.nc")
    assert not FS.exists("a.nc")
    FS.reset()
    return "stand-in self-test: ok"
