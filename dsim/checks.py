"""Check definitions: which world, which oracles, how a run is configured, what counts as non-trivial."""
from dsim import values as V

_CHECKS = {}


class CheckDef(object):
    def __init__(self, prop, world, tiers, level, families=None):
        self.prop, self.world, self.tiers, self.level = prop, world, tiers, level
        self.families = families or {}

    def make_world(self, cfg):
        from dsim import bootstrap
        bootstrap.setup()
        world = cfg.get("world", self.world)
        if world == "array":
            from dsim.worlds.arrays import ArrayWorld
            return ArrayWorld(cfg, [self.prop])
        if world == "dataset":
            from dsim.worlds.datasets import DatasetWorld
            return DatasetWorld(cfg, [self.prop])
        if world == "file":
            from dsim.worlds.files import FileWorld
            return FileWorld(cfg, [self.prop])
        raise ValueError(world)

    def gen_cfg(self, rng, tier):
        world = self.world
        if self.prop == "C15":
            # operand monitoring also rides on the Dataset and file histories (DESIGN 5.4)
            world = rng.choices(["array", "dataset", "file"], [0.7, 0.2, 0.1])[0]
        if world == "array":
            return array_cfg(rng, tier, self.prop, self.families)
        if world == "dataset":
            from dsim.worlds.datasets import dataset_cfg
            return dataset_cfg(rng, tier, self.prop)
        from dsim.worlds.files import file_cfg
        return file_cfg(rng, tier, self.prop)

    def nontrivial(self, rec):
        s = rec["summary"]
        if "probes" in s:
            if self.prop == "C05":
                return s["probes"] >= 1 and s["inplace"] >= 1
            if self.prop == "C15":
                return s["ok"] >= 4 and s["live"] >= 2
            return s["ok"] >= 4
        return s.get("nontrivial", False)

    rule = ""


ALL_FAMILIES = ["ctor", "index", "transform", "reshape", "reindex", "missing", "join", "arith", "copy", "assign",
                "rename", "relabel", "meta", "query", "dataset", "route", "probe"]

BASE_WEIGHTS = {
    "C15": {"ctor": 1, "index": 2, "transform": 2, "reshape": 3, "reindex": 3, "missing": 1, "join": 3, "arith": 3,
            "copy": 2, "assign": 2, "rename": 1, "relabel": 1.5, "meta": 2, "query": 1, "dataset": 2, "route": 0.5, "probe": 0},
    "C05": {"ctor": 1.5, "index": 2, "transform": 1, "reshape": 3, "reindex": 2, "missing": 0.5, "join": 1.5, "arith": 1.5,
            "copy": 0.5, "assign": 1, "rename": 1.5, "relabel": 4, "meta": 0.3, "query": 3, "dataset": 1, "route": 0, "probe": 5},
    "C16": {"ctor": 1, "index": 2, "transform": 2, "reshape": 2, "reindex": 2, "missing": 1, "join": 1.5, "arith": 1.5,
            "copy": 0.5, "assign": 0.5, "rename": 2, "relabel": 0.5, "meta": 3, "query": 0.3, "dataset": 1, "route": 8, "probe": 0},
}


def array_cfg(rng, tier, prop, families):
    base = BASE_WEIGHTS[prop]
    fams = {}
    # swarm: every family is switched off in some runs, boosted in others
    for f in ALL_FAMILIES:
        wgt = base.get(f, 1)
        r = rng.random()
        if r < 0.2 and f not in ("ctor",):
            wgt = 0
        elif r < 0.35:
            wgt *= 3
        fams[f] = wgt
    if prop == "C05":
        fams["probe"] = max(fams["probe"], 2)
    if prop == "C16":
        fams["route"] = max(fams["route"], 3)
    kinds = rng.sample(V.LABEL_KINDS, rng.randint(1, 3))
    orders = rng.sample(V.ORDERS, rng.randint(1, 3))
    long_ = tier == "thorough" and rng.random() < 0.5
    cfg = {"world": "array", "families": fams,
           "max_rank": rng.randint(1, 4 if tier == "thorough" else 3), "max_len": rng.randint(1, 4), "min_len": rng.choice([0, 1, 1, 1, 2]),
           "label_kinds": sorted(kinds), "orders": sorted(orders), "pool": rng.randint(3, 8),
           "nan_rate": rng.choice([0.0, 0.15, 0.4]), "meta_density": rng.choice([0.0, 0.5, 1.0, 1.0]),
           "mutable_meta": rng.random() < 0.6,
           "dtypes": rng.choice([["f8"], ["f8", "i8"], ["f8", "f8", "i8", "i4", "b1", "O"]]),
           "dim_names": V.DIM_NAMES[:rng.randint(2, 6)],
           "n_steps": rng.randint(25, 60) if long_ else rng.randint(5, 30)}
    if rng.random() < 0.06:
        # "big" runs: behaviour must not depend on axes being short
        cfg["max_len"], cfg["max_rank"], cfg["big"] = rng.choice([rng.randint(6, 24)] * 4 + [rng.randint(101, 130)]), min(cfg["max_rank"], 2), True
    if rng.random() < 0.15:
        cfg["dtypes"] = cfg["dtypes"] + ["f4"]
    if rng.random() < 0.1:
        cfg["inf_rate"] = 0.05
    if rng.random() < 0.15:
        # one global option away from its default: the claimed properties do not depend on them
        k, v = rng.choice([["op.reindex", False], ["op.broadcast", False], ["indexing.broadcast", False], ["align.join", "inner"],
                           ["indexing.by", "position"], ["display.max", 2]])
        cfg["options"] = {k: v}
    if rng.random() < 0.08:
        k_ = len(cfg["dim_names"])
        cfg["dim_names"] = (V.ODD_DIM_NAMES + ["x"])[:max(2, k_)]
        cfg["odd_names"] = True
    cfg["min_len"] = min(cfg["min_len"], cfg["max_len"])
    cfg["scenario_rate"] = {"C05": rng.choice([0.0, 0.1, 0.25]), "C15": rng.choice([0.0, 0.0, 0.1]), "C16": 0.0}[prop]
    return cfg


def register(c):
    _CHECKS[c.prop] = c
    return c


def get(prop):
    return _CHECKS[prop]


def all_ids():
    return sorted(_CHECKS)


register(CheckDef("C15", "array", {"quick": {"runs": 60000, "wall": 75}, "thorough": {"runs": 1200000, "wall": 1100}}, "exploration"))
register(CheckDef("C05", "array", {"quick": {"runs": 60000, "wall": 75}, "thorough": {"runs": 1200000, "wall": 1100}}, "exploration"))
register(CheckDef("C16", "array", {"quick": {"runs": 60000, "wall": 75}, "thorough": {"runs": 1200000, "wall": 1100}}, "exploration"))
register(CheckDef("C13", "dataset", {"quick": {"runs": 40000, "wall": 75}, "thorough": {"runs": 1500000, "wall": 1100}}, "fault_enumeration"))
register(CheckDef("C14", "dataset", {"quick": {"runs": 40000, "wall": 75}, "thorough": {"runs": 1500000, "wall": 1100}}, "exploration"))
register(CheckDef("C19", "file", {"quick": {"runs": 30000, "wall": 75}, "thorough": {"runs": 1000000, "wall": 1100}}, "exploration"))
register(CheckDef("C20", "file", {"quick": {"runs": 30000, "wall": 75}, "thorough": {"runs": 1000000, "wall": 1100}}, "exploration"))
