"""Seeded value generators, guarded snapshots and comparisons shared by all worlds.

Nothing in this module draws from a PRNG other than the one handed in, reads a clock, or
iterates a set.  Snapshots never trigger lazily computed state of the object observed
(MultiAxis labels/size caches are *peeked*, not computed).
"""
import math
import numpy as np

DIM_NAMES = ["x", "y", "z", "t", "u", "v"]
ODD_DIM_NAMES = ["x0", " ", "lat lon", "\u00e9", "X", "time.1", "xx"]   # legal, comma-free, unusual: default-style, upper case, space, non-ASCII, prefix of another, dot
STR_LABELS = ["a", "b", "c", "d", "e", "f", "g", "h"]
INT_LABELS = list(range(-2, 11))
FLOAT_LABELS = [k + 0.5 for k in range(-2, 11)] + [3.0, 8.0]     # two whole numbers: 3.0 meets the integer label 3 in joins
# extended universes, used only when more labels are asked for than the small universe holds ("big" runs)
BIG_INT_LABELS = list(range(-2, 200))
BIG_FLOAT_LABELS = [k + 0.5 for k in range(-2, 200)]
BIG_STR_LABELS = STR_LABELS + [a + b for a in "abcdefgh" for b in "abcdefghijklmnopqrstuvw"]
LABEL_KINDS = ["int", "float", "str"]
ORDERS = ["inc", "dec", "shuf"]
DTYPES = ["f8", "i8", "i4", "b1", "O"]


# --------------------------------------------------------------------------- generators

def gen_labels(rng, n, kind=None, order=None):
    """n unique labels of one kind, stored in the requested order."""
    kind = kind or rng.choice(LABEL_KINDS)
    order = order or rng.choice(ORDERS)
    universe = {"int": INT_LABELS, "float": FLOAT_LABELS, "str": STR_LABELS}[kind]
    if n > len(universe):
        universe = {"int": BIG_INT_LABELS, "float": BIG_FLOAT_LABELS, "str": BIG_STR_LABELS}[kind]
    n = min(n, len(universe))
    labs = sorted(rng.sample(universe, n))
    if order == "dec":
        labs = labs[::-1]
    elif order == "shuf":
        rng.shuffle(labs)
    return labs


def gen_values(rng, shape, dtype="f8", nan_rate=0.15, inf_rate=0.0):
    """Nested list of small numbers (exact in floating point)."""
    n = 1
    for s in shape:
        n *= s
    flat = []
    for _ in range(n):
        if dtype in ("f8", "f4") and inf_rate and rng.random() < inf_rate:
            flat.append(float("inf") if rng.random() < 0.5 else float("-inf"))
        elif dtype in ("f8", "f4"):
            flat.append(float("nan") if rng.random() < nan_rate else float(rng.randint(-4, 9)))
        elif dtype in ("i8", "i4", "i2"):
            flat.append(rng.randint(-4, 9))
        elif dtype == "b1":
            flat.append(rng.random() < 0.5)
        else:
            flat.append(rng.choice(["p", "q", "rr", "s"]))
    return _nest(flat, list(shape))


def _nest(flat, shape):
    if not shape:
        return flat[0]
    if len(shape) == 1:
        return flat[:shape[0]]
    step = 1
    for s in shape[1:]:
        step *= s
    return [_nest(flat[i * step:(i + 1) * step], shape[1:]) for i in range(shape[0])]


def gen_attrs(rng, density=0.5, mutable=False, names=None):
    names = names or ["units", "long_name", "scale", "tag", "note", "name"]
    out = {}
    for nm in names:
        if rng.random() < density * 0.6:
            out[nm] = gen_attr_value(rng, mutable)
    return out


def gen_attr_value(rng, mutable=False):
    k = rng.randint(0, 5 if mutable else 3)
    if k == 0:
        return rng.choice(["m", "kg", "none", "deg", "1850", "2.0", "true"])
    if k == 1:
        return rng.randint(-3, 40)
    if k == 2:
        return rng.choice([0.5, 1.25, -2.0])
    if k == 3:
        return [rng.randint(0, 9) for _ in range(rng.randint(1, 3))]
    if k == 4:
        return {"k": rng.randint(0, 9), "l": [rng.randint(0, 3)]}
    return [[rng.randint(0, 3)], "s"]


def gen_array_spec(rng, cfg, dims=None, labels=None, dtype=None, min_rank=0):
    """A JSON-serialisable description of a well-formed array."""
    max_rank = cfg.get("max_rank", 3)
    max_len = cfg.get("max_len", 3)
    min_len = cfg.get("min_len", 1)
    kinds = cfg.get("label_kinds", LABEL_KINDS)
    orders = cfg.get("orders", ORDERS)
    if dims is None:
        names = cfg.get("dim_names", DIM_NAMES)
        rank = rng.randint(min(min_rank, len(names)), min(max_rank, len(names)))
        dims = rng.sample(cfg.get("dim_names", DIM_NAMES), rank)
    if labels is None:
        labels = []
        for d in dims:
            kind = cfg.get("dim_kind", {}).get(d) or rng.choice(kinds)
            labels.append(gen_labels(rng, rng.randint(min_len, max_len), kind, rng.choice(orders)))
    dtype = dtype or rng.choice(cfg.get("dtypes", ["f8", "f8", "i8", "i4", "b1", "O"]))
    shape = [len(l) for l in labels]
    spec = {"dims": list(dims), "labels": labels, "dtype": dtype,
            "values": gen_values(rng, shape, dtype, cfg.get("nan_rate", 0.15), cfg.get("inf_rate", 0.0))}
    md = cfg.get("meta_density", 0.5)
    attrs = gen_attrs(rng, md, cfg.get("mutable_meta", False))
    if attrs:
        spec["attrs"] = attrs
    axattrs = [gen_attrs(rng, md * 0.6, cfg.get("mutable_meta", False), ["units", "axis_note"]) for _ in dims]
    if any(axattrs):
        spec["axattrs"] = axattrs
    return spec


NP_DTYPE = {"i2": np.int16, "f4": np.float32, "f8": np.float64, "i8": np.int64, "i4": np.int32, "b1": np.bool_, "O": object}


def label_array(labs):
    """labels list -> numpy array the way a user would pass it (str -> object via Axis)."""
    if len(labs) == 0:
        return np.array([], dtype=int)
    if all(isinstance(x, int) and not isinstance(x, bool) for x in labs):
        return np.array(labs, dtype=int)
    if all(isinstance(x, (int, float)) and not isinstance(x, bool) for x in labs):
        return np.array(labs, dtype=float)
    out = np.empty(len(labs), dtype=object)
    out[:] = labs
    return out


def values_array(spec):
    dt = NP_DTYPE[spec["dtype"]]
    shape = tuple(len(l) for l in spec["labels"])
    arr = np.array(spec["values"], dtype=dt)
    if arr.shape != shape:  # empty axes
        arr = arr.reshape(shape)
    if spec.get("forder") and arr.ndim >= 2:
        arr = np.asfortranarray(arr)      # the same array in column-major memory, as a transposition leaves it
    return arr


def build_array(spec, form=0):
    """Build the array with one of the documented constructor forms (form 0 = Axis objects)."""
    from dimarray import DimArray, Axis
    vals = values_array(spec)
    dims = spec["dims"]
    labs = [label_array(l) for l in spec["labels"]]
    attrs = dict(_deepcopy_json(spec.get("attrs", {})))
    if form == 0:
        axes = [Axis(l, d) for l, d in zip(labs, dims)]
        a = DimArray(vals, axes)
    elif form == 1:
        a = DimArray(vals, axes=[l for l in labs], dims=list(dims))
    elif form == 2:
        a = DimArray(vals, axes=[(d, l) for l, d in zip(labs, dims)])
    elif form == 3:  # dict + dims; the insertion order of the dict is deliberately not the order of dims
        a = DimArray(vals, axes=dict(reversed(list(zip(dims, labs)))), dims=list(dims))
    elif form == 4:
        a = DimArray(vals, labels=[l for l in labs], dims=tuple(dims))
    elif form == 5:  # values as nested lists, the form of the class docstring
        if 0 in vals.shape:
            a = DimArray(vals, axes=[(d, l) for l, d in zip(labs, dims)])
        else:
            a = DimArray(spec["values"], axes=[l.tolist() for l in labs], dims=list(dims), dtype=NP_DTYPE[spec["dtype"]])
    elif form == 6:  # nested dicts {label0: {label1: value}} with dims (rank 1-2, numeric values)
        if vals.ndim not in (1, 2) or 0 in vals.shape or spec["dtype"] not in ("f8", "i8"):
            a = DimArray(vals, axes=[(d, l) for l, d in zip(labs, dims)])
        else:
            l0 = labs[0].tolist()
            if vals.ndim == 1:
                nested = {k: vals[i].item() for i, k in enumerate(l0)}
            else:
                l1 = labs[1].tolist()
                nested = {k: {k1: vals[i, j].item() for j, k1 in enumerate(l1)} for i, k in enumerate(l0)}
            a = DimArray(nested, dims=list(dims))
    elif form == 7:  # (name, labels) pairs with string labels given as a numpy unicode array rather than a list
        a = DimArray(vals, axes=[(d, np.array(l.tolist()) if l.dtype.kind == "O" and len(l) else l) for l, d in zip(labs, dims)])
    elif form == 8:  # the same requests spelled with tuples instead of lists
        # (an empty list carries no label dtype: empty axes stay arrays)
        a = DimArray(vals, axes=tuple((d, tuple(l.tolist()) if len(l) else l) for l, d in zip(labs, dims)))
    elif form == 9:
        a = DimArray(vals, axes=tuple(l.tolist() if len(l) else l for l in labs), dims=tuple(dims))
    elif form == 10:  # an existing DimArray (or its Axes object) handed to the constructor
        src = DimArray(vals, [Axis(l, d) for l, d in zip(labs, dims)])
        a = DimArray(src) if len(dims) % 2 else DimArray(vals, axes=src.axes)
    elif form == 11:  # one-dimensional shortcuts: a single (name, labels) tuple, or labels with dims given as a string
        if len(dims) != 1:
            a = DimArray(vals, axes=tuple(Axis(l, d) for l, d in zip(labs, dims)))
        elif len(labs[0]) % 2:
            a = DimArray(vals, axes=(dims[0], labs[0]))
        else:
            a = DimArray(vals, axes=labs[0], dims=dims[0])      # the labels themselves (not a list of them) with the name as a string
    elif form == 13:  # a dict of plain lists (rank 2), or nested lists through from_nested, with labels= for every level
        if vals.ndim == 2 and 0 not in vals.shape and spec["dtype"] in ("f8", "i8"):
            l0 = labs[0].tolist()
            if len(l0) % 2:
                a = DimArray({k: vals[i].tolist() for i, k in enumerate(l0)}, dims=list(dims), labels=[l.tolist() for l in labs])
            else:
                a = DimArray.from_nested(vals.tolist(), dims=list(dims), labels=[l.tolist() for l in labs])
        else:
            a = DimArray(vals, axes=[(d, l) for l, d in zip(labs, dims)])
    elif form == 12:  # the array() helper with (name, labels) pairs
        import dimarray
        a = dimarray.array(vals, axes=[(d, l) for l, d in zip(labs, dims)])
    else:
        raise ValueError(form)
    a.attrs.update(attrs)
    for i, aa in enumerate(spec.get("axattrs", [])):
        a.axes[i].attrs.update(_deepcopy_json(aa))
    return a


def _deepcopy_json(x):
    if isinstance(x, dict):
        return {k: _deepcopy_json(v) for k, v in x.items()}
    if isinstance(x, list):
        return [_deepcopy_json(v) for v in x]
    return x


# --------------------------------------------------------------------------- normalisation

def norm(v):
    """Deep, hashable, type-aware normal form of a metadata value / label / scalar."""
    if isinstance(v, dict):
        return ("dict",) + tuple((str(k), norm(v[k])) for k in sorted(v, key=str))
    if isinstance(v, (list,)):
        return ("list",) + tuple(norm(x) for x in v)
    if isinstance(v, tuple):
        return ("tuple",) + tuple(norm(x) for x in v)
    if isinstance(v, np.ndarray):
        if v.dtype.kind == "O":
            return ("nd", "O", v.shape) + tuple(norm(x) for x in v.ravel().tolist())
        return ("nd", v.dtype.str, v.shape, v.tobytes())
    if isinstance(v, (bool, np.bool_)):
        return ("bool", bool(v))
    if isinstance(v, (int, np.integer)):
        return ("int", int(v))
    if isinstance(v, (float, np.floating)):
        f = float(v)
        return ("float", "nan" if math.isnan(f) else f)
    if isinstance(v, str):
        return ("str", v)
    if v is None:
        return ("none",)
    return ("obj", type(v).__name__, repr(v))


def norm_loose(v):
    """Like norm() but container- and width-insensitive (list == 1-D array == tuple, np.int32 == int)."""
    if isinstance(v, np.ndarray):
        if v.ndim == 0:
            return norm_loose(v.item())
        return ("seq",) + tuple(norm_loose(x) for x in v.tolist())
    if isinstance(v, (list, tuple)):
        return ("seq",) + tuple(norm_loose(x) for x in v)
    if isinstance(v, dict):
        return ("dict",) + tuple((str(k), norm_loose(v[k])) for k in sorted(v, key=str))
    if isinstance(v, (bool, np.bool_)):
        return ("bool", bool(v))
    if isinstance(v, (int, np.integer)):
        return ("num", float(v))
    if isinstance(v, (float, np.floating)):
        f = float(v)
        return ("num", "nan" if math.isnan(f) else f)
    if isinstance(v, (str, np.str_)):
        return ("str", str(v))
    if v is None:
        return ("none",)
    return ("obj", type(v).__name__, repr(v))


def nd_key(arr):
    """Exact, hashable content of an ndarray (dtype, shape, bytes / normalised objects)."""
    if not isinstance(arr, np.ndarray):
        return ("notnd", type(arr).__name__, repr(arr)[:80])
    if arr.dtype.kind == "O":
        return ("O", arr.shape) + tuple(norm(x) for x in arr.ravel().tolist())
    return (arr.dtype.str, arr.shape, np.ascontiguousarray(arr).tobytes())


def attrs_key(attrs):
    try:
        return tuple((str(k), norm(attrs[k])) for k in sorted(attrs.keys(), key=str))
    except Exception as e:  # pragma: no cover - defensive
        return ("attrs-raises", type(e).__name__)


# --------------------------------------------------------------------------- snapshots

def snap_axis(ax):
    """Exact observable state of an axis, without computing lazy state."""
    from dimarray.core.axes import MultiAxis
    try:
        if isinstance(ax, MultiAxis):
            # the lazily cached tuple labels are deliberately not part of the snapshot: computing them is
            # a legitimate effect of a read; their staleness is C05's business (oracle grouped_stale)
            return ("MultiAxis", ax.__dict__.get("_name"), tuple(snap_axis(m) for m in list.__iter__(ax.axes)),
                    attrs_key(ax.__dict__.get("_attrs", {})))
        return (type(ax).__name__, ax.__dict__.get("_name"), nd_key(ax.__dict__.get("_values")),
                attrs_key(ax.__dict__.get("_attrs", {})))
    except Exception as e:  # observation must be total
        return ("axis-raises", type(e).__name__)


def snap_array(a):
    try:
        return ("DimArray", nd_key(a._values), tuple(snap_axis(ax) for ax in list.__iter__(a._axes)),
                attrs_key(a._attrs))
    except Exception as e:
        return ("array-raises", type(e).__name__, str(e)[:60])


def snap_dataset(ds):
    try:
        keys = list(dict.keys(ds))
        return ("Dataset", tuple(str(k) for k in keys),
                tuple(snap_array(dict.__getitem__(ds, k)) for k in keys),
                tuple(snap_axis(ax) for ax in list.__iter__(ds._axes)), attrs_key(ds._attrs))
    except Exception as e:
        return ("dataset-raises", type(e).__name__, str(e)[:60])


def snap(obj):
    from dimarray import DimArray, Dataset
    from dimarray.core.axes import Axis
    if isinstance(obj, DimArray):
        return snap_array(obj)
    if isinstance(obj, Dataset):
        return snap_dataset(obj)
    if isinstance(obj, Axis):
        return snap_axis(obj)
    if isinstance(obj, np.ndarray):
        return nd_key(obj)
    return norm(obj)


def describe_snap_diff(before, after, path="obj"):
    """Human-readable first difference between two snapshots."""
    if before == after:
        return None
    if isinstance(before, tuple) and isinstance(after, tuple) and len(before) == len(after):
        for i, (b, a) in enumerate(zip(before, after)):
            d = describe_snap_diff(b, a, "%s[%d]" % (path, i))
            if d:
                return d
    def short(x):
        if isinstance(x, bytes):
            return "bytes:" + x.hex()[:48]
        return repr(x)[:160]
    return "%s: %s -> %s" % (path, short(before), short(after))


def labels_list(vals):
    """Labels as plain Python values (for the generator / event log)."""
    out = []
    for v in np.asarray(vals).tolist():
        out.append(v)
    return out


def label_kind(vals):
    vals = np.asarray(vals)
    k = vals.dtype.kind
    if k in "iu":
        return "int"
    if k == "f":
        return "float"
    if k == "b":
        return "bool"
    if k == "O":
        kinds = set(type(x).__name__ for x in vals.tolist())
        kinds = sorted(kinds)
        return "O:" + ",".join(kinds)
    return k


# --------------------------------------------------------------------------- loose comparison

def _close(x, y, rtol):
    x = np.asarray(x)
    y = np.asarray(y)
    if x.shape != y.shape:
        return False
    if x.dtype.kind in "fc" or y.dtype.kind in "fc":
        try:
            return bool(np.allclose(x.astype(float), y.astype(float), rtol=rtol, atol=1e-12, equal_nan=True))
        except (TypeError, ValueError):
            return False
    if x.dtype.kind == "O" or y.dtype.kind == "O":
        xl, yl = x.ravel().tolist(), y.ravel().tolist()
        return all(same_scalar(p, q, rtol) for p, q in zip(xl, yl))
    return bool(np.array_equal(x, y))


def same_scalar(p, q, rtol=1e-9):
    if isinstance(p, tuple) and isinstance(q, tuple):
        return len(p) == len(q) and all(same_scalar(a, b, rtol) for a, b in zip(p, q))
    if isinstance(p, (str, np.str_)) or isinstance(q, (str, np.str_)):
        return isinstance(p, (str, np.str_)) and isinstance(q, (str, np.str_)) and str(p) == str(q)
    if p is None or q is None:
        return p is None and q is None
    pb, qb = isinstance(p, (bool, np.bool_)), isinstance(q, (bool, np.bool_))
    if pb or qb:
        return pb and qb and bool(p) == bool(q)
    try:
        pf, qf = float(p), float(q)
    except (TypeError, ValueError):
        return norm(p) == norm(q)
    if math.isnan(pf) or math.isnan(qf):
        return math.isnan(pf) and math.isnan(qf)
    if pf == qf:
        return True
    if math.isinf(pf) or math.isinf(qf):
        return False
    return abs(pf - qf) <= 1e-12 + rtol * max(abs(pf), abs(qf))


def diff_axis(a, b, rtol=1e-9, what="axis", attrs=True, kind=True):
    if type(a).__name__ != type(b).__name__:
        return "%s type %s != %s" % (what, type(a).__name__, type(b).__name__)
    if a.name != b.name:
        return "%s name %r != %r" % (what, a.name, b.name)
    try:
        va = a.values
    except Exception as e:
        va = ("raises", type(e).__name__)
    try:
        vb = b.values
    except Exception as e:
        vb = ("raises", type(e).__name__)
    if isinstance(va, tuple) or isinstance(vb, tuple):
        if va != vb:
            return "%s %s labels: %r vs %r" % (what, a.name, va, vb)
        return None
    if kind and label_kind(va) != label_kind(vb):
        return "%s %s label kind %s != %s" % (what, a.name, label_kind(va), label_kind(vb))
    if not _close(va, vb, rtol):
        return "%s %s labels %r != %r" % (what, a.name, labels_list(va), labels_list(vb))
    if attrs and attrs_key(a.attrs) != attrs_key(b.attrs):
        return "%s %s attrs %r != %r" % (what, a.name, dict(a.attrs), dict(b.attrs))
    return None


def diff_arrays(a, b, rtol=1e-9, attrs=True, dtype="exact", kind=True):
    """None if two DimArrays are observably equal, else a description of the first difference."""
    if a.dims != b.dims:
        return "dims %r != %r" % (a.dims, b.dims)
    if a.values.shape != b.values.shape:
        return "shape %r != %r" % (a.values.shape, b.values.shape)
    for ax, bx in zip(a.axes, b.axes):
        d = diff_axis(ax, bx, rtol, attrs=attrs, kind=kind)
        if d:
            return d
    if dtype == "exact" and a.values.dtype != b.values.dtype:
        return "dtype %s != %s" % (a.values.dtype, b.values.dtype)
    if dtype == "kind" and {"U": "O"}.get(a.values.dtype.kind, a.values.dtype.kind) != {"U": "O"}.get(b.values.dtype.kind, b.values.dtype.kind):
        return "dtype kind %s != %s" % (a.values.dtype.kind, b.values.dtype.kind)
    if not _close(a.values, b.values, rtol):
        return "values %r != %r" % (a.values.tolist(), b.values.tolist())
    if attrs and attrs_key(a.attrs) != attrs_key(b.attrs):
        return "attrs %r != %r" % (dict(a.attrs), dict(b.attrs))
    return None


def diff_any(x, y, rtol=1e-9):
    """Loose structural comparison of two results (arrays, datasets, scalars, tuples, ndarrays)."""
    from dimarray import DimArray, Dataset
    from dimarray.core.axes import Axis
    if isinstance(x, DimArray) or isinstance(y, DimArray):
        if not (isinstance(x, DimArray) and isinstance(y, DimArray)):
            return "type %s != %s" % (type(x).__name__, type(y).__name__)
        return diff_arrays(x, y, rtol)
    if isinstance(x, Dataset) or isinstance(y, Dataset):
        if not (isinstance(x, Dataset) and isinstance(y, Dataset)):
            return "type %s != %s" % (type(x).__name__, type(y).__name__)
        kx, ky = list(x.keys()), list(y.keys())
        if kx != ky:
            return "keys %r != %r" % (kx, ky)
        if x.dims != y.dims:
            return "ds dims %r != %r" % (x.dims, y.dims)
        for k in kx:
            d = diff_arrays(x[k], y[k], rtol)
            if d:
                return "var %s: %s" % (k, d)
        if attrs_key(x.attrs) != attrs_key(y.attrs):
            return "ds attrs differ"
        return None
    if isinstance(x, Axis) or isinstance(y, Axis):
        if not (isinstance(x, Axis) and isinstance(y, Axis)):
            return "type %s != %s" % (type(x).__name__, type(y).__name__)
        return diff_axis(x, y, rtol)
    if isinstance(x, (list, tuple)) or isinstance(y, (list, tuple)):
        if not (isinstance(x, (list, tuple)) and isinstance(y, (list, tuple))) or len(x) != len(y):
            return "sequence %r != %r" % (_short(x), _short(y))
        for i, (p, q) in enumerate(zip(x, y)):
            d = diff_any(p, q, rtol)
            if d:
                return "[%d]: %s" % (i, d)
        return None
    if isinstance(x, np.ndarray) or isinstance(y, np.ndarray):
        if not (isinstance(x, np.ndarray) and isinstance(y, np.ndarray)):
            if np.ndim(x) == 0 and np.ndim(y) == 0:
                return None if same_scalar(np.asarray(x).item(), np.asarray(y).item(), rtol) else "scalar %r != %r" % (x, y)
            return "type %s != %s" % (type(x).__name__, type(y).__name__)
        if x.dtype != y.dtype:
            return "nd dtype %s != %s" % (x.dtype, y.dtype)
        return None if _close(x, y, rtol) else "nd %r != %r" % (x.tolist(), y.tolist())
    if isinstance(x, dict) or isinstance(y, dict):
        return None if norm(x) == norm(y) else "dict %r != %r" % (x, y)
    return None if same_scalar(x, y, rtol) else "scalar %r != %r" % (x, y)


def _short(x):
    return repr(x)[:120]


def result_class(r):
    """Coarse outcome class for the event log."""
    from dimarray import DimArray, Dataset
    if isinstance(r, DimArray):
        return "DimArray%d" % r.values.ndim
    if isinstance(r, Dataset):
        return "Dataset%d" % len(r)
    if r is None:
        return "None"
    if isinstance(r, (list, tuple)):
        return "seq%d" % len(r)
    if isinstance(r, np.ndarray):
        return "nd%d" % r.ndim
    return "scalar"
