"""Commands behind check.py: explore, classify, shrink, write replays, match known findings, write evidence."""
import collections
import json
import os
import random
import re
import subprocess
import sys
import time

from dsim import kernel

VERIF_DIR = kernel.VERIF_DIR
KNOWN_PATH = os.path.join(VERIF_DIR, "KNOWN_FINDINGS.jsonl")


def _quiet_stdout():
    sys.stdout = open(os.devnull, "w")


def load_known():
    out = []
    if os.path.exists(KNOWN_PATH):
        with open(KNOWN_PATH) as f:
            for line in f:
                line = line.strip()
                if line and not line.startswith("#"):
                    out.append(json.loads(line))
    return out


def _subset(pat, obj):
    if isinstance(pat, dict):
        return isinstance(obj, dict) and all(k in obj and _subset(v, obj[k]) for k, v in pat.items())
    return pat == obj


def match_known(known, prop, violation, steps):
    """A listed finding matches a (minimised) violation by oracle, failing step and detail pattern."""
    last = steps[violation["step_index"]] if steps and violation["step_index"] < len(steps) else {}
    for k in known:
        if k.get("status") != "known" or k.get("property") != prop or k.get("oracle") != violation["oracle"]:
            continue
        m = k.get("match", {})
        if "op" in m and m["op"] != last.get("op"):
            continue
        if "detail_re" in m and not re.search(m["detail_re"], violation["detail"], re.S):
            continue
        if "step" in m and not _subset(m["step"], last):
            continue
        if "any_step" in m and not any(_subset(m["any_step"], s) for s in steps):
            continue
        return k
    return None


def cmd_replay(path, quiet, out):
    try:
        return _cmd_replay(path, quiet, out)
    finally:
        kernel.cleanup_base_dir()


def _cmd_replay(path, quiet, out):
    _quiet_stdout()
    sys.setrecursionlimit(400)
    doc, rec = kernel.replay_file(path)
    v = rec["violation"]
    exp = doc.get("expected") or {}
    if not quiet:
        for ev in rec["events"]:
            out.write("  step %d %-16s %s\n" % tuple(ev))
    if v and v["property"] == exp.get("property") and v["oracle"] == exp.get("oracle") and v["step_index"] == exp.get("step_index"):
        same_digest = rec["digest"] == doc.get("digest")
        out.write("REPRODUCED property=%s oracle=%s step=%d digest_match=%s\n  %s\n" % (
            v["property"], v["oracle"], v["step_index"], same_digest, v["detail"][:600]))
        out.write("VIOLATION property=%s replay=%s\n" % (v["property"], path))
        return 1
    if v:
        out.write("DIFFERENT-VIOLATION %s/%s at step %d: %s\n" % (v["property"], v["oracle"], v["step_index"], v["detail"][:300]))
        out.write("VIOLATION property=%s replay=%s\n" % (v["property"], path))
        return 1
    out.write("NOT-REPRODUCED (no violation when replaying %s)\n" % path)
    return 0


def cmd_digests(prop, tier, master, a, b, out):
    _quiet_stdout()
    sys.setrecursionlimit(400)
    kernel.enter_private_dir("d")
    try:
        res = kernel.run_batch(prop, tier, master, a, b - a, keep_digests=True)
    finally:
        kernel.cleanup_base_dir()
    out.write(json.dumps({"digests": {str(k): v for k, v in sorted(res["digests"].items())},
                          "harness_errors": len(res["harness_errors"])}) + "\n")
    return 0


def _fresh_digests(prop, tier, master, a, b, hashseed):
    env = dict(os.environ)
    env["PYTHONHASHSEED"] = str(hashseed)
    p = subprocess.run([sys.executable, os.path.join(VERIF_DIR, "check.py"), prop, "--tier", tier, "--seed", str(master),
                        "--digests", "%d:%d" % (a, b)], capture_output=True, text=True, env=env, timeout=600)
    for line in p.stdout.splitlines():
        if line.startswith("{"):
            return {int(k): v for k, v in json.loads(line)["digests"].items()}
    raise kernel.HarnessError("digest subprocess failed: " + (p.stdout + p.stderr)[-500:])


def determinism_probe(prop, tier, master, reference, n, hashseed=12345):
    """Re-run the first n runs in a fresh interpreter under another PYTHONHASHSEED; digests must be identical."""
    got = _fresh_digests(prop, tier, master, 0, n, hashseed)
    bad = [i for i in range(n) if reference.get(i) != got.get(i)]
    return {"runs_compared": n, "other_hashseed": hashseed, "mismatches": bad}


def cmd_selftest(props, master, out):
    from dsim import checks
    props = props or checks.all_ids()
    rc = 0
    for prop in props:
        for tier in ("quick", "thorough"):
            ref = _fresh_digests(prop, tier, master, 0, 200, 0)
            for hs, label in ((0, "same hash seed, second execution"), (12345, "PYTHONHASHSEED=12345")):
                got = _fresh_digests(prop, tier, master, 0, 200, hs)
                bad = [i for i in range(200) if ref.get(i) != got.get(i)]
                out.write("selftest-determinism %s %s: 200 runs twice (%s): %d mismatches %s\n" % (prop, tier, label, len(bad), bad[:5]))
                if bad:
                    rc = 2
        # worker-count independence: the set of per-run digests does not depend on how runs are spread over processes
        _quiet_stdout()
        a = kernel.explore(prop, "quick", master, 400, 1, 600, chunk=100)
        b = kernel.explore(prop, "quick", master, 400, 16, 600, chunk=100)
        kernel.cleanup_base_dir()
        keys = sorted(set(a["digests"]) & set(b["digests"]))
        bad = [i for i in keys if a["digests"][i] != b["digests"][i]]
        out.write("selftest-determinism %s: 1 worker vs 16 workers over %d common runs: %d mismatches; states %d vs %d\n" % (
            prop, len(keys), len(bad), len(a["states"]), len(b["states"])))
        if bad or a["states"] != b["states"]:
            rc = 2
    return rc


def cmd_check(prop, tier, master, runs, workers, wall, out, write_evidence=True):
    try:
        return _cmd_check(prop, tier, master, runs, workers, wall, out, write_evidence)
    finally:
        kernel.cleanup_base_dir()


def _cmd_check(prop, tier, master, runs, workers, wall, out, write_evidence=True):
    from dsim import checks
    check = checks.get(prop)
    params = dict(check.tiers[tier])
    if runs:
        params["runs"] = runs
    if wall:
        params["wall"] = wall
    t0 = time.time()
    out.write("check %s tier=%s VERIF_SEED=%d runs=%d workers=%d repo=%s\n" % (
        prop, tier, master, params["runs"], workers, os.environ.get("VERIF_REPO", "/repo")))
    out.flush()
    _quiet_stdout()
    sys.setrecursionlimit(400)
    rdir = os.path.join(VERIF_DIR, "replays")
    if os.path.isdir(rdir):
        for fn in os.listdir(rdir):
            if fn.startswith(prop + "-"):
                os.remove(os.path.join(rdir, fn))
    total = kernel.explore(prop, tier, master, params["runs"], workers, params["wall"],
                           chunk=params.get("chunk", 100), log=lambda m: (out.write(m + "\n"), out.flush()))
    if total["harness_errors"]:
        out.write("HARNESS-ERROR in %d runs, first:\n%s\n" % (len(total["harness_errors"]), total["harness_errors"][0]["trace"]))
        return 2
    # determinism: same runs, fresh interpreter, other hash seed
    ndet = 12 if tier == "quick" else 40
    det = determinism_probe(prop, tier, master, total["digests"], min(ndet, total["n"]))
    if det["mismatches"]:
        out.write("HARNESS-ERROR determinism self-test failed for runs %r\n" % det["mismatches"][:10])
        return 2
    # violations: one representative per class, minimised, replayed in a fresh process
    known = load_known()
    reported, known_hits, unknown = [], collections.Counter(), []
    by_class = collections.OrderedDict()
    for v in sorted(total["violations"], key=lambda r: r["index"]):
        cls = "%s|%s|%s" % (v["violation"]["property"], v["violation"]["oracle"], v["violation"]["op"])
        by_class.setdefault(cls, []).append(v)
    seen_sig = set()
    for cls, recs in by_class.items():
        for vrec in recs[:3]:
            target = vrec["violation"]
            prefix = []
            test = kernel.make_tester(prop, tier, master, [], vrec["cfg"], target)
            steps, final, used = kernel.shrink(test, vrec["steps"])
            if final is None:
                # not reproducible on its own: the violation needs process state left behind by earlier runs of the
                # same chunk (the chunk started from a pristine process). Replay = those runs, then the steps.
                prefix = list(range(vrec["chunk_start"], vrec["index"]))
                test = kernel.make_tester(prop, tier, master, prefix, vrec["cfg"], target)
                if test(vrec["steps"]) is None:
                    out.write("HARNESS-ERROR violation of run %d does not reproduce even with its chunk prefix (%s)\n" % (vrec["index"], cls))
                    return 2
                # minimise the prefix (ddmin on the list of run indices), then the steps
                cur = prefix
                n = 2
                tries = 0
                while len(cur) >= 1 and tries < 60:
                    size = max(1, len(cur) // n)
                    reduced = False
                    for st in range(0, len(cur), size):
                        cand = cur[:st] + cur[st + size:]
                        tries += 1
                        if test(vrec["steps"], cand) is not None:
                            cur, n, reduced = cand, max(n - 1, 2), True
                            break
                    if not reduced:
                        if size == 1:
                            break
                        n = min(len(cur), n * 2)
                prefix = cur
                test = kernel.make_tester(prop, tier, master, prefix, vrec["cfg"], target)
                steps, final, used = kernel.shrink(test, vrec["steps"], budget=150)
                if final is None:
                    out.write("HARNESS-ERROR violation of run %d lost while minimising (%s)\n" % (vrec["index"], cls))
                    return 2
            viol = final["violation"]
            k = match_known(known, prop, viol, steps)
            sig = (viol["oracle"], steps[viol["step_index"]].get("op"), k["finding_id"] if k else viol["detail"][:60])
            if sig in seen_sig:
                continue
            seen_sig.add(sig)
            path = kernel.write_replay(prop, tier, master, vrec, steps, final, prefix)
            ok, tail = kernel.verify_replay_fresh(path)
            if not ok:
                out.write("HARNESS-ERROR replay %s does not reproduce in a fresh interpreter: %s\n" % (path, tail))
                return 2
            if k:
                known_hits[k["finding_id"]] += total["vcount"][cls]
                reported.append(("known", k, path, viol, len(steps), len(vrec["steps"])))
            else:
                unknown.append((path, viol, len(steps), len(vrec["steps"]), total["vcount"][cls], len(prefix)))
    for kind, k, path, viol, n1, n0 in reported:
        out.write("KNOWN-FINDING: property=%s %s [%s] (%s; minimised %d->%d steps; replay=%s)\n" % (
            prop, k["finding_id"], k.get("text", "")[:160], viol["oracle"], n0, n1, path))
    for path, viol, n1, n0, cnt, npre in unknown:
        out.write("  violation %s/%s in %d runs, minimised %d->%d steps%s: %s\n" % (
            prop, viol["oracle"], cnt, n0, n1, (" after %d earlier run(s) in the same process" % npre) if npre else "", viol["detail"][:400]))
        out.write("VIOLATION property=%s replay=%s\n" % (prop, path))
    wall_s = time.time() - t0
    if write_evidence:
        from dsim import evidence
        evidence.write(prop, tier, master, check, params, total, det, known_hits, [u[:5] for u in unknown], wall_s, workers)
    out.write("%s %s: %d runs, %d steps, %.1fs, %d distinct non-trivial histories, %d abstract states, violations: %d unknown class(es), %d known finding(s)\n" % (
        prop, tier, total["n"], total["steps"], wall_s, len(total["nontrivial"]), len(total["states"]), len(unknown), len(known_hits)))
    return 1 if unknown else 0


def cmd_selftest_standin(out):
    from dsim import bootstrap
    try:
        kernel.enter_private_dir("s")
        bootstrap.setup()
        from dsim.standin import selftest
        out.write(selftest.run() + "\n")
        return 0
    finally:
        kernel.cleanup_base_dir()
