"""Simulation kernel: seeds, run loop, event log + digest, worker pool, shrinking, replay, evidence.

One integer decides everything: per-run seed = sha256(VERIF_SEED, property, tier, run index);
every choice of a run is drawn from the one random.Random made from it, in the generator only.
Logging, oracles and the shrinker never draw from it and never read a clock.
"""
import collections
import faulthandler
import hashlib
import json
import multiprocessing
import os
import random
import subprocess
import sys
import time
import traceback

VERIF_DIR = os.path.dirname(os.path.dirname(os.path.abspath(__file__)))


class Violation(Exception):
    def __init__(self, prop, oracle, detail):
        Exception.__init__(self, "%s/%s: %s" % (prop, oracle, detail))
        self.prop, self.oracle, self.detail = prop, oracle, detail


class HarnessError(Exception):
    pass


def derive_seed(master, prop, tier, index):
    h = hashlib.sha256(("%d|%s|%s|%d" % (master, prop, tier, index)).encode()).digest()
    return int.from_bytes(h[:8], "big")


def h64(obj):
    s = obj if isinstance(obj, (bytes, str)) else json.dumps(obj, sort_keys=True, default=str)
    if isinstance(s, str):
        s = s.encode()
    return int.from_bytes(hashlib.blake2b(s, digest_size=8).digest(), "big")


# ------------------------------------------------------------------------------------ one run

def run_one(check, cfg, rng=None, steps=None, max_steps=None, want_events=False):
    """Execute one simulated run.  Either generate (rng given) or replay (steps given).

    Returns a dict: steps, digest, violation (or None), stats (Counter), states (set of h64),
    grams (set of h64), n_ok (number of steps that did something), events (optional).
    """
    world = check.make_world(cfg)
    digest = hashlib.sha256()
    stats = collections.Counter()
    states, grams = set(), set()
    recorded, events, last = [], [], []
    violation = None
    n = max_steps or cfg.get("n_steps", 20)
    i = 0
    if cfg.get("big"):
        stats["cfg:big_run"] += 1
    try:
        while True:
            if steps is not None:
                if i >= len(steps):
                    break
                step = steps[i]
            else:
                if i >= n:
                    break
                step = world.gen_step(rng)
                if step is None:
                    break
            recorded.append(step)
            outcome = world.exec_step(step)
            for k in world.pop_counts():
                stats[k] += 1
            key = world.state_key()
            line = json.dumps([i, step.get("op"), outcome, key], sort_keys=True, default=str)
            digest.update(line.encode())
            stats["op:%s:%s" % (step.get("op"), outcome.split(":")[0])] += 1
            states.add(h64(key))
            last = (last + ["%s/%s" % (step.get("op"), outcome)])[-3:]
            if len(last) == 3:
                grams.add(h64("|".join(last)))
            if want_events:
                events.append([i, step.get("op"), outcome])
            i += 1
        world.finish()
        for k in world.pop_counts():
            stats[k] += 1
    except Violation as v:
        for k in world.pop_counts():
            stats[k] += 1
        violation = {"property": v.prop, "oracle": v.oracle, "detail": v.detail, "step_index": i,
                     "op": recorded[-1].get("op") if recorded else None}
        digest.update(("VIOLATION %s %s %d" % (v.prop, v.oracle, i)).encode())
    finally:
        world.close()
    return {"steps": recorded, "digest": digest.hexdigest(), "violation": violation, "stats": stats,
            "states": states, "grams": grams, "events": events, "summary": world.summary()}


# ------------------------------------------------------------------------------------ batches

def _worker_init():
    faulthandler.enable()
    sys.setrecursionlimit(400)


_BASE_DIR = [None]


def base_dir():
    """Scratch directory of this check invocation (marker files of the simulated file system live below it)."""
    if _BASE_DIR[0] is None or not os.path.isdir(_BASE_DIR[0]):
        import tempfile, shutil, glob
        for old in glob.glob("/var/tmp/dsim_fs.*"):        # left behind by an invocation that was killed: remove after 6 hours
            try:
                if time.time() - os.path.getmtime(old) > 6 * 3600:
                    shutil.rmtree(old, ignore_errors=True)
            except OSError:
                pass
        _BASE_DIR[0] = tempfile.mkdtemp(prefix="dsim_fs.", dir="/var/tmp")
    return _BASE_DIR[0]


def cleanup_base_dir():
    import shutil
    if _BASE_DIR[0] and os.path.isdir(_BASE_DIR[0]):
        try:
            os.chdir("/")
        except OSError:
            pass
        shutil.rmtree(_BASE_DIR[0], ignore_errors=True)
    _BASE_DIR[0] = None


def enter_private_dir(tag):
    """chdir into a fresh, private directory: SimFS paths are relative names mirrored there as marker files."""
    d = os.path.join(base_dir(), "%s.%d" % (tag, os.getpid()))
    os.makedirs(d, exist_ok=True)
    os.chdir(d)
    return d


def call_in_child(fn, *args, **kw):
    """Run fn(*args) in a child forked from this (pristine) process and return its result.

    The parent never executes library code itself, so every child starts from the same process state:
    process-global state a broken library may keep (class-level caches ...) cannot leak between executions.
    """
    timeout = kw.pop("timeout", 600)
    ctx = multiprocessing.get_context("fork")
    parent, child = ctx.Pipe(duplex=False)
    pid = os.fork()
    if pid == 0:
        code = 0
        try:
            parent.close()
            _worker_init()
            d = enter_private_dir("c")
            try:
                res = ("ok", fn(*args))
            except BaseException:
                res = ("err", traceback.format_exc()[-3000:])
            child.send(res)
            child.close()
            import shutil
            os.chdir("/")
            shutil.rmtree(d, ignore_errors=True)
        except BaseException:
            code = 3
        finally:
            os._exit(code)
    child.close()
    try:
        if not parent.poll(timeout):
            os.kill(pid, 9)
            os.waitpid(pid, 0)
            raise HarnessError("child timed out after %ds" % timeout)
        kind, val = parent.recv()
    except EOFError:
        os.waitpid(pid, 0)
        raise HarnessError("child died without a result")
    finally:
        parent.close()
    os.waitpid(pid, 0)
    if kind == "err":
        raise HarnessError(val)
    return val


def run_batch(check_id, tier, master, start, count, keep_digests=False, chunk_start=None):
    """Run indices [start, start+count) of (property, tier, master seed). Executed in a worker."""
    from dsim import checks
    check = checks.get(check_id)
    out = {"n": 0, "stats": collections.Counter(), "states": set(), "grams": set(), "nontrivial": set(),
           "violations": [], "vcount": collections.Counter(), "samples": [], "digests": {}, "steps": 0,
           "harness_errors": []}
    try:
        trace_file = open("watchdog_trace.txt", "w")      # in the private directory; read by the parent if this process dies
    except OSError:
        trace_file = sys.stderr
    for idx in range(start, start + count):
        # a run that does not come back within 120 s (an endless loop inside C code cannot be interrupted otherwise)
        # ends this process; the parent reports the dumped traceback as a harness error, never as a verdict
        faulthandler.dump_traceback_later(120, exit=True, file=trace_file)
        trace_file.seek(0)
        trace_file.write("run index %d\n" % idx)
        trace_file.flush()
        seed = derive_seed(master, check_id, tier, idx)
        rng = random.Random(seed)
        try:
            cfg = check.gen_cfg(rng, tier)
            rec = run_one(check, cfg, rng=rng)
        except Violation:
            raise
        except Exception:
            out["harness_errors"].append({"index": idx, "seed": seed, "trace": traceback.format_exc()[-3000:]})
            continue
        out["n"] += 1
        out["steps"] += len(rec["steps"])
        out["stats"].update(rec["stats"])
        out["states"] |= rec["states"]
        out["grams"] |= rec["grams"]
        if check.nontrivial(rec):
            out["nontrivial"].add(h64(rec["steps"]))
        if keep_digests:
            out["digests"][idx] = rec["digest"]
        if rec["violation"]:
            v = rec["violation"]
            cls = "%s|%s|%s" % (v["property"], v["oracle"], v["op"])
            out["vcount"][cls] += 1
            if out["vcount"][cls] <= 3 and len(out["violations"]) < 30:
                out["violations"].append({"index": idx, "seed": seed, "cfg": cfg, "steps": rec["steps"],
                                          "violation": v, "digest": rec["digest"],
                                          "chunk_start": start if chunk_start is None else chunk_start})
        elif len(out["samples"]) < 2 and check.nontrivial(rec):
            out["samples"].append({"index": idx, "cfg": cfg, "steps": rec["steps"], "summary": rec["summary"]})
    faulthandler.cancel_dump_traceback_later()
    return out


def merge(total, part):
    total["n"] += part["n"]
    total["steps"] += part["steps"]
    total["stats"].update(part["stats"])
    for k in ("states", "grams", "nontrivial"):
        if len(total[k]) < 4000000:
            total[k] |= part[k]
    total["vcount"].update(part["vcount"])
    for v in part["violations"]:
        if len(total["violations"]) < 200:
            total["violations"].append(v)
    for s in part["samples"]:
        if len(total["samples"]) < 3:
            total["samples"].append(s)
    total["digests"].update(part["digests"])
    total["harness_errors"].extend(part["harness_errors"][:5])


def explore(check_id, tier, master, runs, workers, wall_cap, chunk=100, log=None):
    """Seeded search over `runs` simulated runs; every chunk of runs executes in its own child, forked from the
    pristine parent, `workers` children at a time."""
    from multiprocessing.connection import wait
    total = {"n": 0, "stats": collections.Counter(), "states": set(), "grams": set(), "nontrivial": set(),
             "violations": [], "vcount": collections.Counter(), "samples": [], "digests": {}, "steps": 0,
             "harness_errors": []}
    t0 = time.time()
    jobs = [(s_, min(chunk, runs - s_)) for s_ in range(0, runs, chunk)]
    ctx = multiprocessing.get_context("fork")
    live = {}      # connection -> (pid, start, count, t_started)
    it = iter(jobs)
    stopped = False
    base_dir()

    def launch():
        try:
            s_, c_ = next(it)
        except StopIteration:
            return False
        parent, child = ctx.Pipe(duplex=False)
        pid = os.fork()
        if pid == 0:
            code = 0
            try:
                parent.close()
                for conn in list(live):
                    conn.close()
                _worker_init()
                d = enter_private_dir("w")
                try:
                    res = ("ok", run_batch(check_id, tier, master, s_, c_, s_ < 2 * chunk, chunk_start=s_))
                except BaseException:
                    res = ("err", traceback.format_exc()[-3000:])
                child.send(res)
                child.close()
                import shutil
                os.chdir("/")
                shutil.rmtree(d, ignore_errors=True)
            except BaseException:
                code = 3
            finally:
                os._exit(code)
        child.close()
        live[parent] = (pid, s_, c_, time.time())
        return True

    for _ in range(workers):
        if not launch():
            break
    done_chunks = 0
    while live:
        ready = wait(list(live), timeout=30)
        now = time.time()
        for conn in list(live):
            pid, s_, c_, ts = live[conn]
            if conn in ready:
                try:
                    kind, val = conn.recv()
                except EOFError:
                    kind, val = "err", "worker for runs %d..%d died" % (s_, s_ + c_)
                    try:
                        with open(os.path.join(base_dir(), "w.%d" % pid, "watchdog_trace.txt")) as tf:
                            val += "\n" + tf.read()[-2500:]
                    except OSError:
                        pass
                conn.close()
                del live[conn]
                os.waitpid(pid, 0)
                if kind == "ok":
                    merge(total, val)
                else:
                    total["harness_errors"].append({"index": s_, "seed": None, "trace": val})
                done_chunks += 1
                if time.time() - t0 > wall_cap:
                    stopped = True
                if not stopped:
                    launch()
                if log and done_chunks % 50 == 0:
                    log("  ... %d runs, %.0fs, %d violation classes" % (total["n"], time.time() - t0, len(total["vcount"])))
            elif now - ts > 900:
                os.kill(pid, 9)
                os.waitpid(pid, 0)
                conn.close()
                del live[conn]
                total["harness_errors"].append({"index": s_, "seed": None, "trace": "worker for runs %d..%d hung (killed after 900 s)" % (s_, s_ + c_)})
    total["wall"] = time.time() - t0
    total["stopped_by_wall_cap"] = stopped
    return total


# ------------------------------------------------------------------------------------ shrinking

def _exec_case(check_id, tier, master, prefix, cfg, steps):
    """Executed in a pristine child: first regenerate and execute the prefix runs (same chunk, earlier indices), then the steps."""
    from dsim import checks
    check = checks.get(check_id)
    for idx in prefix:
        seed = derive_seed(master, check_id, tier, idx)
        rng = random.Random(seed)
        try:
            run_one(check, check.gen_cfg(rng, tier), rng=rng)
        except Exception:
            pass
    rec = run_one(check, cfg, steps=steps, want_events=True)
    rec.pop("stats", None)
    rec.pop("states", None)
    rec.pop("grams", None)
    return rec


def make_tester(check_id, tier, master, prefix, cfg, target):
    def test(cand_steps, cand_prefix=None):
        try:
            rec = call_in_child(_exec_case, check_id, tier, master, prefix if cand_prefix is None else cand_prefix, cfg, cand_steps, timeout=300)
        except HarnessError:
            return None
        v = rec["violation"]
        if v and v["property"] == target["property"] and v["oracle"] == target["oracle"]:
            return rec
        return None
    return test


def shrink(test_fn, steps, budget=400):
    """ddmin over the step list; a candidate is accepted only if the same (property, oracle) fails."""
    used = [0]
    def test(cand):
        if used[0] >= budget:
            return None
        used[0] += 1
        return test_fn(cand)
    best = test(steps)
    if best is None:
        return steps, None, used[0]
    cur = list(best["steps"])[:best["violation"]["step_index"] + 1]
    n = 2
    while len(cur) >= 2 and used[0] < budget:
        size = max(1, len(cur) // n)
        reduced = False
        for start in range(0, len(cur), size):
            cand = cur[:start] + cur[start + size:]
            if not cand:
                continue
            rec = test(cand)
            if rec is not None:
                cur = cand[:rec["violation"]["step_index"] + 1]
                best = rec
                n = max(n - 1, 2)
                reduced = True
                break
        if not reduced:
            if size == 1:
                break
            n = min(len(cur), n * 2)
    final = test(cur) or best
    return cur, final, used[0]


# ------------------------------------------------------------------------------------ replay files

def write_replay(check_id, tier, master, vrec, steps, final, prefix=()):
    d = os.path.join(VERIF_DIR, "replays")
    os.makedirs(d, exist_ok=True)
    path = os.path.join(d, "%s-%s-%d-%d.json" % (check_id, final["violation"]["oracle"], master, vrec["index"]))
    doc = {"property": check_id, "tier": tier, "seed": master, "run": vrec["index"], "run_seed": vrec["seed"],
           "cfg": vrec["cfg"], "steps": steps, "expected": final["violation"], "digest": final["digest"],
           "original_length": len(vrec["steps"]), "prefix_runs": list(prefix)}
    with open(path, "w") as f:
        json.dump(doc, f, indent=1, default=str)
    return path


def replay_file(path):
    from dsim import checks
    with open(path) as f:
        doc = json.load(f)
    enter_private_dir("r")
    rec = _exec_case(doc["property"], doc.get("tier", "quick"), doc.get("seed", 0), doc.get("prefix_runs", []), doc["cfg"], doc["steps"])
    return doc, rec


def verify_replay_fresh(path):
    """Re-execute the replay file in a fresh interpreter; it must fail the same way with the same digest."""
    env = dict(os.environ)
    env["PYTHONHASHSEED"] = "0"
    p = subprocess.run([sys.executable, os.path.join(VERIF_DIR, "check.py"), "--replay", path, "--quiet"],
                       capture_output=True, text=True, env=env, timeout=120)
    return p.returncode == 1 and "REPRODUCED" in p.stdout, (p.stdout + p.stderr)[-400:]
