#!/venv/bin/python
"""Launcher for the dimarray deterministic-simulation checks.

  check.py <PROP> [--tier quick|thorough] [--runs N] [--workers N] [--wall S]
  check.py --replay <file> [--quiet]
  check.py <PROP> --digests A:B            (print run digests, used by the determinism self-test)
  check.py --selftest-determinism [PROP ...]

Exit status: 0 = property held on everything explored (KNOWN-FINDING lines allowed),
1 = VIOLATION (line `VIOLATION property=<id> replay=<path>`), 2 = harness error (never a verdict).
"""
import argparse
import json
import os
import sys

HERE = os.path.dirname(os.path.abspath(__file__))
sys.path.insert(0, HERE)

if os.environ.get("PYTHONHASHSEED") is None:
    os.environ["PYTHONHASHSEED"] = "0"
    os.execv(sys.executable, [sys.executable] + sys.argv)


def main():
    ap = argparse.ArgumentParser()
    ap.add_argument("prop", nargs="*")
    ap.add_argument("--tier", default=os.environ.get("VERIF_TIER", "quick"))
    ap.add_argument("--runs", type=int)
    ap.add_argument("--workers", type=int, default=int(os.environ.get("VERIF_WORKERS", "16")))
    ap.add_argument("--wall", type=float)
    ap.add_argument("--seed", type=int, default=int(os.environ.get("VERIF_SEED", "20261003")))
    ap.add_argument("--replay")
    ap.add_argument("--quiet", action="store_true")
    ap.add_argument("--digests")
    ap.add_argument("--selftest-determinism", action="store_true")
    ap.add_argument("--selftest-standin", action="store_true")
    ap.add_argument("--no-evidence", action="store_true")
    args = ap.parse_args()
    from dsim import driver
    real_stdout = sys.stdout
    if args.replay:
        return driver.cmd_replay(args.replay, args.quiet, real_stdout)
    if args.selftest_standin:
        return driver.cmd_selftest_standin(real_stdout)
    if args.selftest_determinism:
        return driver.cmd_selftest(args.prop, args.seed, real_stdout)
    if not args.prop:
        ap.error("property id required")
    if args.digests:
        a, b = args.digests.split(":")
        return driver.cmd_digests(args.prop[0], args.tier, args.seed, int(a), int(b), real_stdout)
    if args.tier not in ("quick", "thorough"):
        ap.error("tier")
    return driver.cmd_check(args.prop[0], args.tier, args.seed, args.runs, args.workers, args.wall,
                            real_stdout, not args.no_evidence)


if __name__ == "__main__":
    try:
        rc = main()
    except SystemExit:
        raise
    except BaseException:
        import traceback
        sys.__stdout__.write("HARNESS-ERROR " + traceback.format_exc()[-2000:] + "\n")
        rc = 2
    sys.__stdout__.flush()
    os._exit(rc)
